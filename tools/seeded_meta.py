#!/usr/bin/env python3
"""Write /verif/seeded/<id>/meta.json for round-3 seeded changes from the logs of tools/seeded_eval.sh.
usage: seeded_meta.py <results dir> [<results dir> ...]   (later directories override earlier ones per check)"""
import json, os, re, sys

WHAT = {
 "r8-C11": "DirichletFromBeta::new fast path for n == 2 builds the Beta for the smaller alpha without recording the swap: for two alphas <= 0.1 in descending order the two components are exchanged (mass moved |a0 - a1| / (a0 + a1))",
 "r8-C12": "UnitSphere rejects sum >= 1 - 32 sqrt(epsilon) ('numerical guard'): in f32 the south polar cap z < -0.978 (1.1 % of the surface) is never produced; f64 guard 4.8e-7",
 "r8-C13": "Weibull fast path for -ln x within sqrt(epsilon) of 1 returns scale + a d instead of scale (1 + a d): 4260 of the 2^24 f32 words, KS 8.5e-5 at Weibull(3, 0.7), none at scale 1",
 "r8-C14": "Poisson rejection method reads lambda^k / k! (k < 10) from a static OnceLock table built from the lambda of the first Poisson object that reaches the branch: later objects with another lambda in [12, 30] get py off by (lambda0/lambda)^k; values and word counts depend on which object was sampled first in the process",
 "r8-C08": "",
 "r7-C01": "LogNormal::from_mean_cv computes mu = ln(mean) - sigma/2 instead of ln(mean) - sigma^2/2 ('overflow fix'): every cv except sqrt(e - 1) (the one the unit test uses) gets the wrong location; KS 0.03 .. 0.18",
 "r7-C02": "BTPE step 5.3 reuses z = n - m + 1 for the coefficient (n - m + 1/2): log-acceptance bound too high by ln((n-m+1)/(n-y+1)) in the shoulders 20 < |y - m| < npq/2 - 1 (npq > 42); TV 3.8e-4 (n = 200) .. 5.7e-3 (n = 1000, p = 0.5)",
 "r7-C03": "Gumbel rewritten as location - scale ln(-ln_1p(-u)) with u from StandardUniform ([0, 1)): u == 0 (the all-zeros word; 1 of 2^24 f32 draws) gives +inf",
 "r7-C04": "DirichletFromBeta::new reverse cumulative sum rewritten with (0..=(n - 3)).rev(): usize underflow / index panic in Dirichlet::new for length 2 with every alpha <= 0.1",
 "r7-C05": "Zeta stores r = (b - 1)/b instead of b = 2^(s-1): inf/inf = NaN once b overflows (f64 s >= 1025, f32 s >= 129), every proposal rejected, sample() never returns",
 "r7-C07": "Triangular::sample returns min when max - min < F::epsilon() ('degenerate support' fast path with an absolute threshold): supports narrower than epsilon next to 0 collapse to a point (f32: width < 1.2e-7)",
 "r7-C09": "WeightedTreeIndex push / increasing update: overflow pre-check on the root replaced by a checked bottom-up walk; the root is visited last, so an Err(Overflow) leaves the inner ancestors incremented (slot depth >= 2, integer weights)",
 "r7-C10": "WeightedTreeIndex::try_sample returns Ok(0) for any one-element tree before the total > 0 test: a single zero weight is sampled (reachable by new([0]), update(0, 0), or pops down to a zeroed root)",
 "r7-C15": "Binomial's Btpe payload serialised as {n, p} only, m recomputed on load as floor((n + 1) p) instead of floor(n p + p): differs by one when (n + 1) p is an integer (two equal modes; 0.3 % of a (n, p/100) grid), value unequal and 92 % of samples differ",
 "r6-C01": "Beta gets a third algorithm (inverse CDF) for min(alpha, beta) == 1 exactly with the switched_params selection the wrong way round: Beta(1, b) is sampled as Beta(b, 1) (KS 1 - 2^(1-b)); Pert with the mode at an end inherits it",
 "r6-C02": "Zipf uses the s == 1 logarithmic hat whenever |s - 1| < 2^-8 while the acceptance ratio still assumes the x^-s hat: the law becomes essentially Zipf(n, 1); TV 1.4e-3 (n = 10) .. 7e-3 (n = 1e6) for 0 < |s - 1| < 0.0039",
 "r6-C03": "InverseGaussian root with a factored out of the radicand (a * sqrt(1 + 2/a)): 0 * inf = NaN when the normal draw is exactly 0 (f64: one word in 2^52; f32 with mean/shape << 1: a band)",
 "r6-C05": "BTPE step 5.0 condition expanded with a wrong De Morgan: the recursive evaluation of f(y) from the mode is used for every proposal, 0.8 sqrt(npq) loop steps per sample (2.35 s per call at n = u64::MAX); words per sample and law unchanged",
 "r6-C06": "ZIG_NORM_F[255] with two digits transposed (9.2e-5 relative): table equation violated, top-layer wedge accepts points above the density; Kolmogorov distance 3.0e-6",
 "r6-C08": "WeightedAliasIndex::new sums float weights left to right in the validation loop instead of pairwise_sum: for long float vectors with a heavy first weight ([2^24, 1, 1, ...] f32, n >= 1e4) weight_sum is too small, probabilities and weights() off by n * eps",
 "r6-C10": "try_sample 'leaf fast path' with first_leaf = (len - 1) / 2: in even-length trees the last inner node is treated as a leaf, the last index is never returned and its weight is credited to its parent",
 "r6-C13": "Gumbel upper tail uses t = 1 - u for -ln(u) when t < cbrt(eps): relative error t/2 becomes an absolute shift; f32: top 0.49 % of the draws, Kolmogorov distance 1.2e-5 (55x the C13 bound)",
 "r6-C14": "hand-written PartialEq for the Gamma helper structs: GammaSmallShape compares inv_shape only, so Gamma(shape < 1, s1) == Gamma(shape, s2) for any scales although they print and sample differently",
 "r5-C01": "StudentT clamps the chi-squared draw at F::epsilon() (EPSILON-vs-MIN mix-up): the power-law tail beyond sqrt(nu/eps) becomes Gaussian; KS 4.6e-3 (f32 nu = 0.5) .. 4.6e-2 (f32 nu = 0.25), f64 only for nu <= 0.26, far tail only for f32 nu ~ 1",
 "r5-C02": "Hypergeometric HIN loop rewritten as `for next in (x + 1)..x_max` (exclusive): the top value min(n1, k) of the internal variable can never be returned; TV = its probability (0.105 at (20,3,10), n/N for K = 1)",
 "r5-C04": "Pert::with_mode checks the mode before the range: a NaN min or max with a finite mode returns ModeRange (documented condition false) instead of RangeTooSmall",
 "r5-C07": "Frechet applies the scale inside the power through a cached scale^(-shape): overflow/underflow of that factor for shape * |log10 scale| large gives location or +inf for every draw, tens of eps of error in between",
 "r5-C09": "WeightedTreeIndex::update overflow pre-check subtracts the subtree subtotal instead of the node's own weight: for an inner node with non-zero descendants and a total within the descendants' mass of MAX, Overflow is not reported and update panics half-way (integer weights)",
 "r5-C11": "Dirichlet Gamma method draws entries <= 0.1 (in mixed vectors) as exp(-E / alpha) - the alpha -> 0 limit law, dropping the Gamma(alpha + 1) factor: marginal CDF of the small entries off by 5e-3 (alpha 0.01) .. 3.3e-2 (alpha 0.1)",
 "r5-C12": "UnitCircle final transform rewritten in tangent half-angle form t = x2 / x1: [NaN, NaN] whenever the accepted x1 is exactly 0 (one adversarial word; 2^-23 per draw in f32)",
 "r5-C14": "Binomial BTPE thread_local 'learned squeeze' (n, p, y, v) recorded also at the region-1 early exit where v was never compared with f(y): later equal-parameter samples accept proposals Step 5 would reject; values and RNG words depend on what was sampled before on the thread (first divergence after 40 .. 18000 calls)",
 "r5-C15": "GammaRepr made serde(untagged) with the small-shape variant flattened: Small {inv_shape, scale, c, d} deserialises as Large {scale, c, d}; every Gamma / ChiSquared / StudentT / FisherF with shape in (0, 1) round-trips to a different distribution",
 "r4-C01a": "InverseGaussian 'degenerate quadratic' fast path returns mu when a = mu v^2/(2 lambda) < epsilon: atom at x = mean of mass 0.8 sqrt(2 eps shape/mean); f32 only in practice, KS 2e-4 sqrt(shape/mean) (1.3e-2 at IG(2, 8000))",
 "r4-C01b": "Beta BB early accept when z = u1^2 u2 < epsilon: the far w -> 0 tail of the proposal is accepted wholesale; f32: one tail (probability <= 1e-3) over-weighted by 2x .. 150x, sup CDF deviation 3e-4 .. 4.5e-4",
 "r4-C02a": "BTPE step 5.3 Stirling term uses f_m for x_m = m + 1/2: log-acceptance shifted by (frac(np+p) - 1/2) ln((m+1)/(y+1)) for 20 < |y-m| < npq/2 - 1; TV up to 6e-3 for npq of a few hundred, none at npq < 44 and 1/sqrt(m) decay for huge n",
 "r4-C02b": "Hypergeometric HIN initial probability via Stirling ln_factorial when n1 + k > 65536: p(0) carries a relative error of 2e-3 .. 8e-3 at N >= 2^38.5 (and makes parameter sets valid and fast that the original rejects or constructs in seconds)",
 "r4-C03": "ziggurat one-sided uniform subtracts 1.0 instead of 1 - eps/2: Exp1 returns exactly 0 for words with bits 12..63 zero; Exp(0) and Gamma(1, inf) give NaN, StudentT(2) / FisherF(., 2) give inf",
 "r4-C05": "Geometric::new bounded search for k capped at u32::BITS = 32 (needs 53): for p < 1.6e-10 the D ~ Geo(pi) loop consumes 1/(2^32 p) words per sample (25 at 1e-11, 2e5 at 1e-15); the law stays exact",
 "r4-C06": "Exp1 tail reuses the ziggurat's u (uniform on [R/(R+1), 1) there) instead of a fresh uniform: exponential tail truncated at 7.82, Kolmogorov distance 4.0e-4",
 "r4-C08": "alias construction no longer clamps w * n to MAX: for float vectors holding the per-length maximum fl(MAX/n) with fl(MAX/n) * n = inf (f64 n = 3, 6, 7, ..; f32 n >= 25) one column gets infinite odds and absorbs the others; sampling frequencies wrong ([m, m, 0] -> 1/3, 2/3, 0)",
 "r4-C10": "WeightedTreeIndex::update fast path `subtotals[index] == weight` returns early: an inner node updated to a value equal to its current subtotal keeps its old weight; later samples follow the stale weights",
 "r4-C11": "DirichletFromBeta sets the last component to 1 - (sum of the others) instead of the remaining stick: negative components down to -2e-16 (f64) / -5e-7 (f32) for lengths >= 4, last component quantised",
 "r4-C12": "UnitDisc: first candidate as before, otherwise a direct 'uniform point on a chord' construction: mixture pi/4 uniform + (1 - pi/4) chord law; r^2 sup-distance 0.0176, x marginal 0.0124",
 "r4-C13": "Triangular upper branch: sub-branch for 1 - f < sqrt(eps) with a misplaced parenthesis (distance to max scaled by sqrt(max - mode)): 5792 top f32 draws, CDF off by 3.45e-4 |1 - 1/(max - mode)|, non-monotone",
 "r3-C01": "Beta BC kappa2 with a misplaced parenthesis (0.25 + 0.75/delta*b): quick-rejection threshold too small whenever the two shapes differ and one is <= 1; KS distance 0.002 (1,1.2) .. 0.11 (1,10)",
 "r3-C02": "Poisson rejection method step Q compares with u instead of 1-u (u is the small squeeze uniform, not a fresh one): left side gets the symmetric normal mass, CDF off by 0.14/sqrt(lambda) for every lambda >= 12",
 "r3-C02x": "Poisson step S squeeze shrunk by a 'continuity correction' (lambda - k - 0.5)^3: quick-accept region larger than the exact one, TV 0.037/lambda (3e-3 at lambda = 12)",
 "r3-C03": "Zipf: floor(inv_b + 1) replaced by ceil(inv_b): returns 0 when the proposal uniform is exactly 0 (one word in 2^53 / 2^24)",
 "r3-C04": "Triangular::new mode test rewritten by De Morgan (mode < min || mode > max): NaN mode accepted",
 "r3-C05": "Hypergeometric HIN loop bound on x removed: for the all-ones first word the accumulated pmf falls short of u, p becomes 0 and the loop spins forever without drawing words (a third of the HIN parameter sets)",
 "r3-C06": "ziggurat zero_case is handed |x| instead of the signed u: every normal tail sample beyond R = 3.654 is positive (1.29e-4 of mass moved from the negative to the positive tail)",
 "r3-C07": "LogNormal computes exp(mu) * exp(sigma z) from a cached exp(mu): inf / 0 / NaN whenever exp(mu) alone is not representable although exp(mu + sigma z) is (f64 |mu| > 709, f32 |mu| > 88)",
 "r3-C08": "alias construction splits small/big on the unscaled weight against the truncated integer mean: an entry equal to floor(sum/len) with sum % len != 0 is misclassified; tables wrong or panic for integer weights ([1,0,3] -> [1,0,2])",
 "r3-C09": "WeightedTreeIndex::update inlines get() and tests only for a right child: the one node with a left child only (even lengths) gets old_weight wrong, tree inconsistent after update(n/2-1, w)",
 "r3-C10": "WeightedTreeIndex::try_sample draws from 0..=total and relaxes the assertion: one extra target value goes to the root, P(0) = (w0+1)/(total+1); zero-weight root returned",
 "r3-C11": "DirichletFromGamma redraws every gamma variate that is exactly 0: the lower part of the marginal of a tiny alpha (P(0) = 0.48 at alpha = 1e-3 in f64) is removed, law of x_i for alpha_i <= 5e-3 beside a large alpha",
 "r3-C12": "UnitSphere maps a rejected pair back by inversion in the unit circle instead of redrawing: P(z < 0) = 0.607, sup-distance of z 0.114, z and longitude dependent",
 "r3-C12x": "UnitSphere redraws only the larger coordinate of a rejected pair: samples after a rejection (21.5 %) biased, sup-distance of z 0.046, norm still 1",
 "r3-C13": "Frechet far upper tail (t = -ln u < 1e-3) evaluated in log space with shape multiplied instead of divided: t^(-shape) for the top 16.8k f32 draws, KS 1e-3 for shape != 1",
 "r3-C14": "StandardGeometric gets an inherent sample_iter (bit-pool iterator) that shadows Distribution::sample_iter for method-call syntax: values and RNG cursor differ from repeated sample()",
 "r3-C15": "Hypergeometric: offset_x / sign_x skipped when they hold the identity value, serde(default) restores sign_x as 0: un-mirrored and doubly mirrored parameter sets deserialize to a constant sampler",
}

def main():
    logs = {}
    for d in sys.argv[1:]:
        for f in sorted(os.listdir(d)):
            if f.endswith('.log'):
                mid = f[:-4]
                cur = logs.setdefault(mid, {"checks": {}, "lines": {}})
                txt = open(os.path.join(d, f)).read()
                for k in ("demo_without_patch_exit", "demo_with_patch_exit", "suite_with_patch_exit", "apply_exit"):
                    m = re.search(rf"{k}=(\d+)", txt)
                    if m:
                        cur[k] = int(m.group(1))
                res = re.findall(r"^test result: .*$", txt, re.M)
                if res:
                    cur["suite_results"] = res
                for m in re.finditer(r"check_(C\d\d(?:_thorough)?)_exit=(\d+)", txt):
                    cur["checks"][m.group(1)] = int(m.group(2))
                for m in re.finditer(r"^VIOLATION property=(C\d\d) .*?#\s*(.*)$", txt, re.M):
                    cur["lines"].setdefault(m.group(1), m.group(2)[:200])
    for mid, c in sorted(logs.items()):
        sd = f"/verif/seeded/{mid}"
        if not os.path.isdir(sd):
            continue
        prop = re.sub(r"^r\d+-", "", mid)[:3]
        caught = [k for k, v in c["checks"].items() if v == 1]
        extra = {}
        ep = os.path.join(sd, "verdict_notes.json")
        if os.path.exists(ep):
            extra = json.load(open(ep))
        meta = {
            "id": mid, "property": prop, "round": int(re.match(r"r(\d+)-", mid).group(1)) if re.match(r"r(\d+)-", mid) else 1,
            "what_it_needs_to_manifest": WHAT.get(mid, ""),
            "confirmed_by_me": {
                "scratch_worktree": "git worktree of /repo HEAD under /tmp, removed afterwards",
                "pinned_suite_with_patch": {"cmd": "cargo test --offline", "exit": c.get("suite_with_patch_exit"), "results": c.get("suite_results", [])},
                "demonstration": {"file": [f for f in os.listdir(sd) if f.startswith("demo_")], "exit_without_patch": c.get("demo_without_patch_exit"), "exit_with_patch": c.get("demo_with_patch_exit")},
            },
            "checks_run": sorted(c["checks"]),
            "check_exit_codes": c["checks"],
            "caught_by": extra.get("caught_by", ", ".join(sorted(caught)) if caught else None),
            "first_violation_line": {k: v for k, v in c["lines"].items()},
            "missed_because": extra.get("missed_because"),
            "source": "independent sub-agent (told which sites earlier rounds had used) given only the property text and a scratch worktree",
        }
        if "note" in extra:
            meta["note"] = extra["note"]
        json.dump(meta, open(os.path.join(sd, "meta.json"), "w"), indent=1)
        print(mid, "caught_by:", meta["caught_by"], "| missed_because:", meta["missed_because"])

if __name__ == "__main__":
    main()
