#!/usr/bin/env python3-vt
"""Cross-check of the engine's reference laws (engine/src/refs.rs) against scipy/mpmath.
Runs `rdverif check REF <case label> <points...>` and compares. Writes /verif/ref/crosscheck.json.
Not part of any verdict: it documents the accuracy (tau_ref) assumed by the law checks."""
import subprocess, json, re, math
from scipy import stats
import mpmath as mp
mp.mp.dps = 60
B="/verif/.target/release/rdverif"
def ref(label, pts):
    out=subprocess.run([B,"check","REF",label]+[repr(float(p)) for p in pts],capture_output=True,text=True).stdout
    return [float(m) for m in re.findall(r"= ([-0-9.e+]+)",out)]
cases=[
 ("Gamma<f64>(shape=2.5e0,scale=1e0)", [0.1,1.0,2.5,8.0,20.0], lambda x: stats.gamma.cdf(x,2.5)),
 ("Gamma<f64>(shape=5e-2,scale=1e0)", [1e-30,1e-10,0.01,1.0], lambda x: stats.gamma.cdf(x,0.05)),
 ("Gamma<f64>(shape=1e4,scale=1e0)", [9700.0,10000.0,10300.0], lambda x: stats.gamma.cdf(x,1e4)),
 ("Beta<f64>(alpha=5e-1,beta=5e-1)", [1e-6,0.1,0.5,0.999], lambda x: stats.beta.cdf(x,0.5,0.5)),
 ("Beta<f64>(alpha=5e1,beta=8e1)", [0.3,0.385,0.45], lambda x: stats.beta.cdf(x,50,80)),
 ("StudentT<f64>(nu=1.5e0)", [-100.0,-1.0,0.3,50.0], lambda x: stats.t.cdf(x,1.5)),
 ("FisherF<f64>(m=7e-1,n=3e0)", [0.01,1.0,30.0], lambda x: stats.f.cdf(x,0.7,3)),
 ("InverseGaussian<f64>(mean=2e1,shape=2e0)", [0.1,1.0,20.0,500.0], lambda x: stats.invgauss.cdf(x,20/2,scale=2)),
 ("SkewNormal<f64>(location=0e0,scale=1e0,shape=5e0)", [-0.5,0.0,0.5,2.0], lambda x: stats.skewnorm.cdf(x,5)),
 ("SkewNormal<f64>(location=0e0,scale=1e0,shape=-1e2)", [-2.0,-0.5,-0.01,0.005], lambda x: stats.skewnorm.cdf(x,-100)),
 ("NormalInverseGaussian<f64>(alpha=2e0,beta=1e0)", [-1.0,0.0,0.5,3.0], lambda x: stats.norminvgauss.cdf(x,2,1)),
 ("NormalInverseGaussian<f64>(alpha=5e-1,beta=-4.5e-1)", [-20.0,-2.0,0.0,1.0], lambda x: stats.norminvgauss.cdf(x,0.5,-0.45)),
 ("Binomial<u64>(n=4.294967296e9,p=5e-1)", [2147450000,2147483648,2147600000], lambda k: stats.binom.cdf(k,2**32,0.5)),
 ("Binomial<u64>(n=9.007199254740992e15,p=5.551115123125783e-15)", [40,50,60], lambda k: stats.binom.cdf(k,2**53,5.551115123125783e-15)),
 ("Poisson<f64>(lambda=1e8)", [99990000,100000000,100010000], lambda k: stats.poisson.cdf(k,1e8)),
 ("Hypergeometric<u64>(N=5e3,K=2.5e3,n=5e2)", [230,250,270], lambda k: stats.hypergeom.cdf(k,5000,2500,500)),
 ("Zipf<f64>(n=1e3,s=1.5e0)", [1,10,500], lambda k: float(sum(mp.mpf(j)**-1.5 for j in range(1,int(k)+1))/sum(mp.mpf(j)**-1.5 for j in range(1,1001)))),
 ("Zeta<f64>(s=1.05e0)", [1,10,1e6], lambda k: float(1-mp.zeta(1.05,k+1)/mp.zeta(1.05))),
 ("Geometric<u64>(p=1e-12)", [1e11,1e12,5e12], lambda k: float(1-mp.mpf(1-mp.mpf('1e-12'))**(int(k)+1))),
]
res=[]; worst=0
for label,pts,f in cases:
    got=ref(label,pts)
    for p,g in zip(pts,got):
        e=float(f(p)); d=abs(g-e); worst=max(worst,d)
        res.append({"case":label,"x":p,"engine":g,"scipy_or_mpmath":e,"abs_diff":d})
        print(f"{label:60s} x={p:<12g} engine={g:.12e} ref={e:.12e} diff={d:.1e}")
json.dump({"worst_abs_diff":worst,"rows":res},open("/verif/ref/crosscheck.json","w"),indent=1)
print("worst",worst)
