#!/usr/bin/env python3
"""Regenerates /verif/MANIFEST.json from the table below (kept in one place so it is always valid)."""
import json, subprocess, sys
CLAIMED = {
 # id: (level category, technique, engine, design_ref, level text, level note)
 "C03": ("fault_enumeration", "deviation-bounded exhaustive enumeration of RNG answers (0 and 1 deviations from base streams over a boundary-word lattice; all 2^24 f32 patterns) on the real samplers",
         "D", "DESIGN.md §3.2, §5-C03",
         "Every execution of the real sample() over: all cases of envelope E (plus integer/float extremes and all Hypergeometric triples with N<=40) x base streams x request position x every word of the boundary lattice (0 then 1 deviation), and all 2^24 top-bit patterns of the first f32 draw. Each execution is checked against the family's support predicate and for panics (debug assertions and overflow checks on). This is the property's own quantifier (single adversarial word), enumerated completely over the stated finite alphabet.",
         "Trusted: rand 0.10 conversions; words outside the lattice are not explored (covered for the law by C01/C02 engine T); two simultaneous adversarial words are outside the property."),
 "C01": ("model_checking", "exhaustive exploration of the execution tree of the real sample() under finite RNG alphabets (stateless explicit-state search with loop closure by bounded bisimulation; exact law of the finite-alphabet chain vs documented CDF with an a-posteriori error bound)",
         "T", "DESIGN.md §3.1, §5-C01",
         "For every continuous family x {f32,f64} x grid point of envelope E the complete execution graph of sample() is explored: macro-atom alphabets for StandardNormal/Exp1 draws (rebuilt from the code each run), midpoint lattices with dyadic tails for value-producing words, exact interval subdivision for comparison-only words, rejection loops closed by restart detection. The resulting exact output law is compared with the documented CDF at ~270 checkpoints (quantiles k/256 and tails to 1e-6).",
         "Decided up to the computed tolerance (typ. 1e-4..1e-3 for one value-producing draw, >= one second-level cell (2e-3 quick) for two; trees with >= 3 value-producing levels are explored under reach-aware size plans (DESIGN §11.9) and are reported as not judged when no planned exploration completes within the case's time share). Assumption A-res (no feature narrower than the local resolution between explored words). References: closed forms / special crate, cross-checked against scipy."),
 "C02": ("model_checking", "exhaustive exploration of the execution tree of the real sample() under finite RNG alphabets; exact pmf by interval subdivision + shift-restart closure for inverse transforms, lattices for BTPE/H2PE/PD",
         "T", "DESIGN.md §3.1, §5-C02",
         "Same engine as C01 on Binomial (all n<=30 x 18 p plus grids to 2^62), Poisson, Geometric, Hypergeometric, Zipf, Zeta. Single-word inverse transforms (BINV, HIN, both geometric loops) are resolved exactly (1e-15); BTPE, H2PE, Zipf, Zeta by lattice x subdivision (4096 x 2048 quick, 16384 x 4096 thorough), PD-Poisson under reach-aware size plans.",
         "Not decided: Knuth's product method (Poisson lambda < 12, Binomial's Poisson-limit branch) - no restart structure, one value-producing draw per unit of output; stated in the evidence. References: Loader saddle-point pmfs, Edgeworth expansion for sd > 1.5e5."),
 "C06": ("model_checking", "exhaustive check of all 4x257 table entries against the ziggurat equations + exhaustive exploration of the primitives' execution tree (first word = all 256 layers x 2^14 strata)",
         "T+F", "DESIGN.md §5-C06",
         "Tables: strict monotonicity, end points, F[i] = f(X[i]) to 1e-14, all layer areas equal V = R f(R) + tail(R) to 1e-8, generator recurrence - every entry, through hook H1. Law: StandardNormal and Exp1 explored with the complete product alphabet of the first word, wedge words by exact subdivision, tail words by lattice with dyadic strata; compared with Phi / 1-exp(-x) at 1051 checkpoints down to 1e-9, plus sign symmetry.",
         "Law decided up to the computed tolerance (about 1e-7 in the body at the quick tier, relative ~10% at tail probability 1e-6)."),
 "C11": ("model_checking", "engine T law exploration of Dirichlet marginals/ratios (n = 2, n = 3) + deviation-bounded enumeration for the simplex constraints + exhaustive sample/sample_to_slice agreement over the deviation alphabet",
         "T+D", "DESIGN.md §5-C11",
         "Simplex part: every execution of the deviation-bounded exploration (all alpha vectors of E up to length 64, 0/1 deviations) is checked for length, [0,1], NaN and sum = 1 within len*2ulp; sample() vs sample_to_slice() into a reused dirty buffer must agree bit for bit over three consecutive samples. Law part: marginals and one ratio for n = 2 (both methods) and, in the thorough tier, n = 3.",
         "Marginal/ratio laws for n >= 4 and for n = 3 with alpha < 0.2 are not judged (>= 4 value-producing draws / mass within float granularity of 0 and 1)."),
 "C12": ("model_checking", "engine T exploration of the rejection loops of the four unit-geometry samplers (two/three lattice levels) + deviation-bounded enumeration and all 2^24 f32 first-draw patterns for the norm constraints",
         "T+D", "DESIGN.md §5-C12",
         "Norm/NaN: every explored execution. Uniformity: exact finite-alphabet law of angle, r^2, z, longitude, r^3, z/r and two conditional projections against the uniform law.",
         "Uniformity decided up to one second-level lattice cell (2e-3 quick; UnitBall and samplers whose rejection loop carries state use reach-aware size plans, tolerance about 1e-2); a defect confined to a region smaller than a cell (needing two or three simultaneous special words) is outside what is explored."),
 "C04": ("exploration", "exhaustive enumeration of the cross product of a special-value lattice per constructor argument against an oracle transcribed from the documented error variants",
         "F", "DESIGN.md §5-C04",
         "Every public float constructor (new, from_mean_cv, with_mode, with_mean, Dirichlet::new for lengths 0..3) x f32/f64 x the full cross product of a ~41-value lattice per argument (NaN, +-inf, +-0, subnormals, MIN_POSITIVE, MAX, thresholds +-1ulp); Binomial/Geometric/Hypergeometric over a 12-value u64 lattice. Judged: Err exactly when a documented condition holds, the returned variant's condition holds, no panic, accessors return the arguments.",
         "Regions where the documentation is silent or contradicts itself are only judged for 'no panic' (list in the evidence assumptions). Constructor calls that do not return within the deadline are recorded and left to C05."),
 "C07": ("fault_enumeration", "paired executions of the real samplers on identical scripted streams (base streams + every single-word deviation over the boundary lattice) with a relational oracle",
         "D", "DESIGN.md §5-C07",
         "For the 13 location/scale families x f32/f64 x the location/scale lattice: sample at canonical parameters and at (loc, scale) on the same stream; the results must satisfy the documented map up to its rounding (4 ulp; conditioning-aware for Triangular near its end points, InverseGaussian's cancelling root, LogNormal in log space) and consume the same number of words. from_zscore on a z lattice.",
         "Non-finite samples are C03's matter and skipped here."),
 "C08": ("model_checking", "exhaustive enumeration of all weight vectors up to a length over a per-type alphabet; for small integer sums every (column, threshold) execution of sample(), obtained by environment probing, with an exact counting identity",
         "F", "DESIGN.md §5-C08",
         "13 weight types x all vectors of length <= 5 (quick) over {0,1,2,3,MAX/len-1,MAX/len,MAX/len+1,-1 | float specials incl. MAX/len and its predecessor} plus structured vectors of length 31..300: constructor verdict per the documentation, no panic, weights() reconstructs the input (exactly for integers), zero-weight indices never returned, a clone samples identically, and for integer sums <= 128 the identity #{(column, threshold) : sample = i} = len * w_i over ALL pairs.",
         "For integer sums above the budget sampling is checked for validity only (exactness then rests on weights()); float proportionality on a 256-point threshold lattice per column."),
 "C09": ("model_checking", "explicit-state breadth-first search over all operation histories up to a depth on the real WeightedTreeIndex, with a reference model (plain weight list, i128 arithmetic) compared in every state and on every transition",
         "H", "DESIGN.md §3.3, §5-C09",
         "All histories over {new(ws) |ws|<=3, push(w), pop(), update(i,w)} up to depth 4 (quick) / 5, length <= 5 / 7, weights from {0,1,2,MAX/2+1,MAX-1,MAX,-1 | floats incl. NaN, -0.0, 1e30} for u8,i8,u32,i64,u64,f32,f64. In every state: len/is_empty/get/is_valid agree with the list, integers: tree == new(list); on every transition: error exactly when expected (InvalidWeight, Overflow), error leaves the structure unchanged, pop returns the last weight, no panic.",
         "Float comparisons are relative to the largest total the tree has held (absorption of small weights next to 1e30 is rounding, not a defect)."),
 "C10": ("model_checking", "in every distinct state reached by the C09 breadth-first search: exhaustive target enumeration (counting identity over total*64 equispaced words) for integer totals <= 4096, boundary-word lattice and 4096-point lattice otherwise",
         "H", "DESIGN.md §5-C10",
         "Sampling is exercised in states reached through update histories, not only fresh trees. Integer totals <= 4096: #{words : sample = i} = 64 w_i exactly. Other states: index validity, non-zero weight, no panic on the boundary lattice (incl. the largest target), proportionality within 2.5/4096. Invalid states: try_sample = InsufficientNonZero.",
         "rand's range reduction is the trusted environment; float trees polluted by a much larger former total are not judged for proportionality."),
 "C13": ("model_checking", "exhaustive enumeration of all 2^24 values of the first f32 uniform draw through the real sample(); exact push-forward law vs documented CDF (Kolmogorov distance)",
         "T", "DESIGN.md §5-C13",
         "Cauchy, Pareto, Weibull, Gumbel, Frechet, Triangular (f32) x grid of E: every one of the 2^24 first-word patterns is executed; each execution must consume exactly one word (else the case is recorded not applicable); the exact induced law must be within 2^-24 (1.5 + 8 sup|x f(x)|) of the documented CDF and every output in the support.",
         "Complete for the stated space. The f32 conversions use the top 24 bits of a next_u32 served from the top of the script word."),
 "C14": ("model_checking", "explicit-state exploration of all call histories up to a depth over {A, clone, equal rebuild, sibling, other family} x two cursors on one word sequence, executed on the real objects with a differential oracle between histories; plus enumeration of 4 orders of first use over all cases in fresh processes (process-wide state)",
         "H", "DESIGN.md §5-C14, §11.17",
         "For a spread of cases covering every family and representation variant (all cases in the thorough tier): all 10^4 (quick) call sequences; a table keyed by (parameter class, cursor before) must receive the same (result bits, cursor after) from every history; Debug/== unchanged after sampling; values that compare equal (a case and its sibling of the same family) sample identically; sample_iter agrees with repeated sample, also when sample / sample_iter are written with method syntax on 41 concrete types (where an inherent method would shadow the trait's).",
         "Single-threaded histories (the crate has no synchronisation to schedule). State set once per process is covered only through the 4 first-use orders of the first-touch sub-check (96 samples per case)."),
 "C15": ("exploration", "enumeration of every serde-enabled type x representation variant: JSON and value-tree round trips, equality, and identical sampling on base streams and all single-word deviations at the first requests",
         "F+D", "DESIGN.md §5-C15",
         "Compile-time list of the types implementing Serialize+Deserialize under feature serde (Zipf, Zeta, Dirichlet do not), parameter grids (Binomial 15 n x p = k/100 and j/(n+1); every Hypergeometric with N <= 16; Poisson / Geometric 121 points; Gamma / Beta / FisherF 25 x 7 shapes) and hand-picked sets for every internal enum variant (Gamma Large/One/Small, Beta BB/BC x switched, Binomial Binv/Btpe/Poisson/Constant x flipped, Poisson Knuth/Rejection, ...), weighted indices of several lengths incl. float trees after update histories.",
         "Values holding a non-finite float are not covered (JSON cannot carry infinities)."),
 "C05": ("fault_enumeration", "deviation-bounded exhaustive enumeration of RNG answers with a per-call word cap and wall-clock watchdog on the real samplers",
         "D+T", "DESIGN.md §3.2, §5-C05",
         "Same enumeration as C03 (plus the extremes of every accepted parameter range); the oracle is the number of RNG words requested by one call (< 1e5) and a 2 s per-call watchdog (constructors included). Part (a): the exact expected number of words per output of every law case under a coarse finite alphabet, computed by engine T with loop closure, must stay below 32 (observed maximum 5.0): a parameter region whose acceptance rate collapses shows 10^2 - 10^6.",
         "A hung thread cannot be cancelled: it is reported and abandoned (the sweep stops handing out jobs after 16 abandoned calls), the process exits at the end; a call that never returns outside the worker pool ends the run through the hang monitor with a VIOLATION (DESIGN §11.9). Cases whose loops engine T cannot close at the coarse resolution (residual > 0.5) are only covered by the per-call cap."),
}
PLANNED = {
}
def main():
    hooks = subprocess.run(["git","-C","/repo","log","--format=%h %s"],capture_output=True,text=True).stdout.splitlines()
    hook_commits = [l.split()[0] for l in hooks if l.split(" ",1)[1].startswith("verif hooks")]
    checks=[]
    for pid,(cat,tech,eng,ref,text,note) in sorted(CLAIMED.items()):
        checks.append({"property_id":pid,"quick_cmd":f"./check {pid} quick","thorough_cmd":f"./check {pid} thorough",
          "evidence_file":f"/verif/evidence/{pid}.json","replay_cmd_template":"cat {path}   # the JSON holds the case, the script words and a ready-to-paste unit test",
          "engine":eng,"level_claimed":{"category":cat,"text":text,"design_ref":ref},"level_note":note,"technique":tech})
    m={"version":1,
       "setup_cmd":"cd /verif/engine && CARGO_NET_OFFLINE=true cargo build --release",
       "hooks":{"guard":"--cfg rand_distr_verif","enable":"RUSTFLAGS via /verif/engine/.cargo/config.toml: build.rustflags = [\"--cfg\", \"rand_distr_verif\"]; rand_distr is a path dependency on /repo (features std, serde)",
                "baseline_off_cmd":"cd /repo && cargo test --workspace --no-fail-fast --offline",
                "source_commits":hook_commits,"add_only":True},
       "engines":[{"name":"rdverif","path":"/verif/engine","serves_properties":sorted(CLAIMED),"kind_free_text":"Rust harness linking the real crate: scripted-RNG execution-tree explorer (T), deviation-bounded explorer (D), explicit-state history explorer (H), finite-lattice enumerators (F)"}],
       "checks":checks,
       "notes":"See DESIGN.md. Known findings and fixed defects: /verif/known_findings.json. Exit 2 from a check is a machinery failure, never a verdict.",
       "not_applicable":[{"property_id":k,"reason":v} for k,v in sorted(PLANNED.items()) if k not in CLAIMED]}
    json.dump(m,open("/verif/MANIFEST.json","w"),indent=1)
    import jsonschema
    jsonschema.validate(m,json.load(open("/root/.vp/MANIFEST.schema.json")))
    print("MANIFEST ok:",len(checks),"checks,",len(m["not_applicable"]),"not_applicable")
main()
