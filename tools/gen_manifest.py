#!/usr/bin/env python3
"""Regenerates /verif/MANIFEST.json from the table below (kept in one place so it is always valid)."""
import json, subprocess, sys
CLAIMED = {
 # id: (level category, technique, engine, design_ref, level text, level note)
 "C03": ("fault_enumeration", "deviation-bounded exhaustive enumeration of RNG answers (0 and 1 deviations from base streams over a boundary-word lattice; all 2^24 f32 patterns) on the real samplers",
         "D", "DESIGN.md §3.2, §5-C03",
         "Every execution of the real sample() over: all cases of envelope E (plus integer/float extremes and all Hypergeometric triples with N<=40) x base streams x request position x every word of the boundary lattice (0 then 1 deviation), and all 2^24 top-bit patterns of the first f32 draw. Each execution is checked against the family's support predicate and for panics (debug assertions and overflow checks on). This is the property's own quantifier (single adversarial word), enumerated completely over the stated finite alphabet.",
         "Trusted: rand 0.10 conversions; words outside the lattice are not explored (covered for the law by C01/C02 engine T); two simultaneous adversarial words are outside the property."),
 "C01": ("model_checking", "exhaustive exploration of the execution tree of the real sample() under finite RNG alphabets (stateless explicit-state search with loop closure by bounded bisimulation; exact law of the finite-alphabet chain vs documented CDF with an a-posteriori error bound)",
         "T", "DESIGN.md §3.1, §5-C01",
         "For every continuous family x {f32,f64} x grid point of envelope E the complete execution graph of sample() is explored: macro-atom alphabets for StandardNormal/Exp1 draws (rebuilt from the code each run), midpoint lattices with dyadic tails for value-producing words, exact interval subdivision for comparison-only words, rejection loops closed by restart detection. The resulting exact output law is compared with the documented CDF at ~270 checkpoints (quantiles k/256 and tails to 1e-6).",
         "Decided up to the computed tolerance (typ. 1e-4..1e-3 for one value-producing draw, >= one second-level cell (2e-3 quick) for two; cases with >= 4 value-producing draws are not judged in the quick tier). Assumption A-res (no feature narrower than the local resolution between explored words). References: closed forms / special crate, cross-checked against scipy."),
 "C02": ("model_checking", "exhaustive exploration of the execution tree of the real sample() under finite RNG alphabets; exact pmf by interval subdivision + shift-restart closure for inverse transforms, lattices for BTPE/H2PE/PD",
         "T", "DESIGN.md §3.1, §5-C02",
         "Same engine as C01 on Binomial (all n<=30 x 18 p plus grids to 2^62), Poisson, Geometric, Hypergeometric, Zipf, Zeta. Single-word inverse transforms (BINV, HIN, both geometric loops) are resolved exactly (1e-15); BTPE, H2PE, PD-Poisson, Zipf, Zeta by lattice x subdivision.",
         "Not decided: Knuth's product method (Poisson lambda < 12, Binomial's Poisson-limit branch) - no restart structure, one value-producing draw per unit of output; stated in the evidence. References: Loader saddle-point pmfs, Edgeworth expansion for sd > 1.5e5."),
 "C06": ("model_checking", "exhaustive check of all 4x257 table entries against the ziggurat equations + exhaustive exploration of the primitives' execution tree (first word = all 256 layers x 2^14 strata)",
         "T+F", "DESIGN.md §5-C06",
         "Tables: strict monotonicity, end points, F[i] = f(X[i]) to 1e-14, all layer areas equal V = R f(R) + tail(R) to 1e-8, generator recurrence - every entry, through hook H1. Law: StandardNormal and Exp1 explored with the complete product alphabet of the first word, wedge words by exact subdivision, tail words by lattice with dyadic strata; compared with Phi / 1-exp(-x) at 1051 checkpoints down to 1e-9, plus sign symmetry.",
         "Law decided up to the computed tolerance (about 1e-7 in the body at the quick tier, relative ~10% at tail probability 1e-6)."),
 "C11": ("model_checking", "engine T law exploration of Dirichlet marginals/ratios (n = 2, n = 3) + deviation-bounded enumeration for the simplex constraints + exhaustive sample/sample_to_slice agreement over the deviation alphabet",
         "T+D", "DESIGN.md §5-C11",
         "Simplex part: every execution of the deviation-bounded exploration (all alpha vectors of E up to length 64, 0/1 deviations) is checked for length, [0,1], NaN and sum = 1 within len*2ulp; sample() vs sample_to_slice() into a reused dirty buffer must agree bit for bit over three consecutive samples. Law part: marginals and one ratio for n = 2 (both methods) and, in the thorough tier, n = 3.",
         "Marginal/ratio laws for n >= 4 and for n = 3 with alpha < 0.2 are not judged (>= 4 value-producing draws / mass within float granularity of 0 and 1)."),
 "C12": ("model_checking", "engine T exploration of the rejection loops of the four unit-geometry samplers (two/three lattice levels) + deviation-bounded enumeration and all 2^24 f32 first-draw patterns for the norm constraints",
         "T+D", "DESIGN.md §5-C12",
         "Norm/NaN: every explored execution. Uniformity: exact finite-alphabet law of angle, r^2, z, longitude, r^3, z/r and two conditional projections against the uniform law.",
         "Uniformity decided up to one second-level lattice cell (2e-3 quick); a defect confined to a region smaller than a cell (needing two or three simultaneous special words) is outside what is explored."),
 "C05": ("fault_enumeration", "deviation-bounded exhaustive enumeration of RNG answers with a per-call word cap and wall-clock watchdog on the real samplers",
         "D", "DESIGN.md §3.2, §5-C05",
         "Same enumeration as C03; the oracle is the number of RNG words requested by one call (< 1e5) and a 2 s per-call watchdog (constructors included). Catches parameter/word combinations that loop forever or whose acceptance rate collapses.",
         "A hung thread cannot be cancelled: it is reported and abandoned, the process exits at the end. Mean consumption per family is reported from base streams here; the exact expectation is computed by engine T when that engine serves this property."),
}
PLANNED = {
 "C04": "check not yet built in this commit (engine F, constructor lattice)",
 "C07": "check not yet built in this commit (engine D, paired executions)",
 "C08": "check not yet built in this commit (engine F/T alias tables)",
 "C09": "check not yet built in this commit (engine H, history BFS)",
 "C10": "check not yet built in this commit (engine H + target enumeration)",
 "C13": "check not yet built in this commit (2^24 exhaustive push-forward)",
 "C14": "check not yet built in this commit (history exploration)",
 "C15": "check not yet built in this commit (serde round trip enumeration)",
}
def main():
    hooks = subprocess.run(["git","-C","/repo","log","--format=%h %s"],capture_output=True,text=True).stdout.splitlines()
    hook_commits = [l.split()[0] for l in hooks if l.split(" ",1)[1].startswith("verif hooks")]
    checks=[]
    for pid,(cat,tech,eng,ref,text,note) in sorted(CLAIMED.items()):
        checks.append({"property_id":pid,"quick_cmd":f"./check {pid} quick","thorough_cmd":f"./check {pid} thorough",
          "evidence_file":f"/verif/evidence/{pid}.json","replay_cmd_template":"cat {path}   # the JSON holds the case, the script words and a ready-to-paste unit test",
          "engine":eng,"level_claimed":{"category":cat,"text":text,"design_ref":ref},"level_note":note,"technique":tech})
    m={"version":1,
       "setup_cmd":"cd /verif/engine && CARGO_NET_OFFLINE=true cargo build --release",
       "hooks":{"guard":"--cfg rand_distr_verif","enable":"RUSTFLAGS via /verif/engine/.cargo/config.toml: build.rustflags = [\"--cfg\", \"rand_distr_verif\"]; rand_distr is a path dependency on /repo (features std, serde)",
                "baseline_off_cmd":"cd /repo && cargo test --workspace --no-fail-fast --offline",
                "source_commits":hook_commits,"add_only":True},
       "engines":[{"name":"rdverif","path":"/verif/engine","serves_properties":sorted(CLAIMED),"kind_free_text":"Rust harness linking the real crate: scripted-RNG execution-tree explorer (T), deviation-bounded explorer (D), explicit-state history explorer (H), finite-lattice enumerators (F)"}],
       "checks":checks,
       "notes":"See DESIGN.md. Known findings and fixed defects: /verif/known_findings.json. Exit 2 from a check is a machinery failure, never a verdict.",
       "not_applicable":[{"property_id":k,"reason":v} for k,v in sorted(PLANNED.items()) if k not in CLAIMED]}
    json.dump(m,open("/verif/MANIFEST.json","w"),indent=1)
    import jsonschema
    jsonschema.validate(m,json.load(open("/root/.vp/MANIFEST.schema.json")))
    print("MANIFEST ok:",len(checks),"checks,",len(m["not_applicable"]),"not_applicable")
main()
