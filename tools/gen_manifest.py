#!/usr/bin/env python3
"""Regenerates /verif/MANIFEST.json from the table below (kept in one place so it is always valid)."""
import json, subprocess, sys
CLAIMED = {
 # id: (level category, technique, engine, design_ref, level text, level note)
 "C03": ("fault_enumeration", "deviation-bounded exhaustive enumeration of RNG answers (0 and 1 deviations from base streams over a boundary-word lattice; all 2^24 f32 patterns) on the real samplers",
         "D", "DESIGN.md §3.2, §5-C03",
         "Every execution of the real sample() over: all cases of envelope E (plus integer/float extremes and all Hypergeometric triples with N<=40) x base streams x request position x every word of the boundary lattice (0 then 1 deviation), and all 2^24 top-bit patterns of the first f32 draw. Each execution is checked against the family's support predicate and for panics (debug assertions and overflow checks on). This is the property's own quantifier (single adversarial word), enumerated completely over the stated finite alphabet.",
         "Trusted: rand 0.10 conversions; words outside the lattice are not explored (covered for the law by C01/C02 engine T); two simultaneous adversarial words are outside the property."),
 "C05": ("fault_enumeration", "deviation-bounded exhaustive enumeration of RNG answers with a per-call word cap and wall-clock watchdog on the real samplers",
         "D", "DESIGN.md §3.2, §5-C05",
         "Same enumeration as C03; the oracle is the number of RNG words requested by one call (< 1e5) and a 2 s per-call watchdog (constructors included). Catches parameter/word combinations that loop forever or whose acceptance rate collapses.",
         "A hung thread cannot be cancelled: it is reported and abandoned, the process exits at the end. Mean consumption per family is reported from base streams here; the exact expectation is computed by engine T when that engine serves this property."),
}
PLANNED = {
 "C01": "check not yet built in this commit (engine T, RNG-tree explorer, in progress)",
 "C02": "check not yet built in this commit (engine T, RNG-tree explorer, in progress)",
 "C04": "check not yet built in this commit (engine F, constructor lattice)",
 "C06": "check not yet built in this commit (engine F tables + engine T primitives)",
 "C07": "check not yet built in this commit (engine D, paired executions)",
 "C08": "check not yet built in this commit (engine F/T alias tables)",
 "C09": "check not yet built in this commit (engine H, history BFS)",
 "C10": "check not yet built in this commit (engine H + target enumeration)",
 "C11": "check not yet built in this commit (engines D + T)",
 "C12": "check not yet built in this commit (engines D + T)",
 "C13": "check not yet built in this commit (2^24 exhaustive push-forward)",
 "C14": "check not yet built in this commit (history exploration)",
 "C15": "check not yet built in this commit (serde round trip enumeration)",
}
def main():
    hooks = subprocess.run(["git","-C","/repo","log","--format=%h %s"],capture_output=True,text=True).stdout.splitlines()
    hook_commits = [l.split()[0] for l in hooks if l.split(" ",1)[1].startswith("verif hooks")]
    checks=[]
    for pid,(cat,tech,eng,ref,text,note) in sorted(CLAIMED.items()):
        checks.append({"property_id":pid,"quick_cmd":f"./check {pid} quick","thorough_cmd":f"./check {pid} thorough",
          "evidence_file":f"/verif/evidence/{pid}.json","replay_cmd_template":"cat {path}   # the JSON holds the case, the script words and a ready-to-paste unit test",
          "engine":eng,"level_claimed":{"category":cat,"text":text,"design_ref":ref},"level_note":note,"technique":tech})
    m={"version":1,
       "setup_cmd":"cd /verif/engine && CARGO_NET_OFFLINE=true cargo build --release",
       "hooks":{"guard":"--cfg rand_distr_verif","enable":"RUSTFLAGS via /verif/engine/.cargo/config.toml: build.rustflags = [\"--cfg\", \"rand_distr_verif\"]; rand_distr is a path dependency on /repo (features std, serde)",
                "baseline_off_cmd":"cd /repo && cargo test --workspace --no-fail-fast --offline",
                "source_commits":hook_commits,"add_only":True},
       "engines":[{"name":"rdverif","path":"/verif/engine","serves_properties":sorted(CLAIMED),"kind_free_text":"Rust harness linking the real crate: scripted-RNG execution-tree explorer (T), deviation-bounded explorer (D), explicit-state history explorer (H), finite-lattice enumerators (F)"}],
       "checks":checks,
       "notes":"See DESIGN.md. Known findings and fixed defects: /verif/known_findings.json. Exit 2 from a check is a machinery failure, never a verdict.",
       "not_applicable":[{"property_id":k,"reason":v} for k,v in sorted(PLANNED.items()) if k not in CLAIMED]}
    json.dump(m,open("/verif/MANIFEST.json","w"),indent=1)
    import jsonschema
    jsonschema.validate(m,json.load(open("/root/.vp/MANIFEST.schema.json")))
    print("MANIFEST ok:",len(checks),"checks,",len(m["not_applicable"]),"not_applicable")
main()
