#!/bin/bash
# usage: seeded_eval.sh <outdir> <mutant dir>...   (each dir holds patch.diff, demo_*.rs, meta.json|*.meta.md)
# For each mutant: (1) confirm in a scratch worktree that the pinned suite passes with it and that its
# demonstration fails with / passes without it; (2) apply it to /repo, run the listed checks, undo it.
OUT=$1; shift
mkdir -p $OUT
for M in "$@"; do
  id=$(basename $M)
  prop=$(echo $id | sed -E "s/^r[0-9]+-//" | cut -c1-3)
  patch=$M/patch.diff
  demo=$(ls $M/demo_*.rs | head -1)
  log=$OUT/$id.log
  echo "=== $id" > $log
  WT=/tmp/wt_eval_$id
  if [ -z "$SKIP_CONFIRM" ]; then
  rm -rf $WT; git -C /repo worktree add --detach $WT HEAD -q
  ( cd $WT
    if [ -f $M/demo_devdep.Cargo.toml.diff ]; then git apply $M/demo_devdep.Cargo.toml.diff 2>>$log || sed -i 's/^special = "0.11.0"/special = "0.11.0"\nserde_json = { version = "1", features = ["float_roundtrip"] }/' Cargo.toml; fi
    FEAT=""; if [ "$prop" = "C15" ]; then FEAT="--features serde"; fi
    cp $demo tests/
    dn=$(basename $demo .rs)
    timeout 900 cargo test --offline $FEAT --test $dn > $OUT/$id.demo_clean.txt 2>&1; echo "demo_without_patch_exit=$?" >> $log
    git apply $patch 2>>$log; echo "apply_exit=$?" >> $log
    timeout 900 cargo test --offline $FEAT --test $dn > $OUT/$id.demo_mut.txt 2>&1; echo "demo_with_patch_exit=$?" >> $log
    mv tests/$dn.rs /tmp/$dn.rs.keep
    timeout 900 cargo test --offline > $OUT/$id.suite.txt 2>&1; echo "suite_with_patch_exit=$?" >> $log
    grep -E "^test result" $OUT/$id.suite.txt >> $log
  )
  git -C /repo worktree remove --force $WT; rm -f /tmp/demo_*.rs.keep
  fi
  if [ -n "${CONFIRM_ONLY:-}" ]; then continue; fi   # step (1) only: safe to run for several changes in parallel
  # (2) my checks against the mutated /repo
  git -C /repo apply $patch 2>>$log || { echo "APPLY-TO-REPO-FAILED" >> $log; continue; }
  for chk0 in $(cat $M/checks.txt 2>/dev/null || echo $prop); do
    chk=${chk0%%:*}; tier=quick; tag=$chk
    if [ "$chk0" != "$chk" ]; then tier=${chk0#*:}; tag=${chk}_$tier; fi
    ( cd /verif && timeout 3000 ./check $chk $tier > $OUT/$id.check_$tag.txt 2>&1; echo "check_${tag}_exit=$?" >> $log )
    grep -m2 "^VIOLATION" $OUT/$id.check_$tag.txt | cut -c1-400 >> $log
  done
  git -C /repo checkout -- .
done
echo ALLDONE >> $OUT/DONE
