//! One execution of a real sampler on a scripted stream, with panics captured.

use crate::rng::{ScriptRng, SplitMix, WordCapExceeded};
use crate::sampler::{Sample, Sampler};
use std::cell::RefCell;
use std::panic::{AssertUnwindSafe, catch_unwind};
use std::sync::atomic::{AtomicBool, AtomicU64, Ordering::Relaxed};
use std::sync::{Arc, Mutex};

/// Per-thread heartbeat of calls into the code under test. A call that never returns and draws no
/// random words cannot be cancelled; the monitor (see `start_hang_monitor`) reports it and ends the run.
pub struct Heartbeat {
    in_subject: AtomicBool,
    count: AtomicU64,
    /// threads whose calls are timed by their own watchdog (worker pool, constructor threads)
    managed: AtomicBool,
    label: Mutex<String>,
}

static REGISTRY: Mutex<Vec<Arc<Heartbeat>>> = Mutex::new(Vec::new());

thread_local! {
    static HB: Arc<Heartbeat> = {
        let h = Arc::new(Heartbeat { in_subject: AtomicBool::new(false), count: AtomicU64::new(0), managed: AtomicBool::new(false), label: Mutex::new(String::new()) });
        REGISTRY.lock().unwrap().push(h.clone());
        h
    };
}

/// number of calls into the code under test made so far by all threads
pub fn total_subject_calls() -> u64 {
    REGISTRY.lock().unwrap().iter().map(|h| h.count.load(Relaxed)).sum()
}

/// name what this thread is exploring (shown when a call into the code under test never returns)
pub fn set_label(s: &str) {
    HB.with(|h| *h.label.lock().unwrap() = s.to_string());
}

/// calls on this thread are timed by another watchdog
pub fn set_managed(b: bool) {
    HB.with(|h| h.managed.store(b, Relaxed));
}

/// Watch all threads: a call into the code under test that has not returned after `limit` ends the run with
/// a violation of `prop` (or the matching known finding); evidence written so far by the check is lost, a
/// minimal evidence file says so.
pub fn start_hang_monitor(prop: &'static str, tier: String, limit: std::time::Duration) {
    std::thread::spawn(move || {
        let mut seen: std::collections::HashMap<usize, (u64, std::time::Instant)> = Default::default();
        let mut last = std::time::Instant::now();
        loop {
            std::thread::sleep(std::time::Duration::from_millis(250));
            // if this monitor itself was held up (machine suspended or starved), the other threads were too:
            // their time does not count
            if last.elapsed() > std::time::Duration::from_secs(2) {
                seen.clear();
            }
            last = std::time::Instant::now();
            let regs: Vec<Arc<Heartbeat>> = REGISTRY.lock().unwrap().clone();
            for h in &regs {
                let id = Arc::as_ptr(h) as usize;
                if h.managed.load(Relaxed) || !h.in_subject.load(Relaxed) {
                    seen.remove(&id);
                    continue;
                }
                let c = h.count.load(Relaxed);
                let now = std::time::Instant::now();
                let e = seen.entry(id).or_insert((c, now));
                if e.0 != c {
                    *e = (c, now);
                    continue;
                }
                if now.duration_since(e.1) > limit {
                    let label = h.label.lock().unwrap().clone();
                    crate::report::hang_exit(prop, &tier, &label, limit.as_secs_f64());
                }
            }
        }
    });
}

thread_local! {
    static LAST_PANIC: RefCell<String> = const { RefCell::new(String::new()) };
    static IN_SUBJECT: std::cell::Cell<bool> = const { std::cell::Cell::new(false) };
}

/// run `f` with panics attributed to the code under test (quiet); panics outside are harness bugs and are printed
pub fn in_subject<T>(f: impl FnOnce() -> T) -> T {
    let prev = IN_SUBJECT.with(|c| c.replace(true));
    if !prev {
        HB.with(|h| {
            h.count.store(h.count.load(Relaxed).wrapping_add(1), Relaxed);
            h.in_subject.store(true, Relaxed);
        });
    }
    struct Reset(bool);
    impl Drop for Reset {
        fn drop(&mut self) {
            IN_SUBJECT.with(|c| c.set(self.0));
            if !self.0 {
                HB.with(|h| h.in_subject.store(false, Relaxed));
            }
        }
    }
    let _r = Reset(prev);
    f()
}

/// run a constructor of the code under test: a panic is attributed to it (quiet) and remembered; the heartbeat is
/// left alone (constructors may legitimately take long)
pub fn ctor_guard<T>(label: &str, f: impl FnOnce() -> Option<T>) -> Option<T> {
    let prev = IN_SUBJECT.with(|c| c.replace(true));
    let r = catch_unwind(AssertUnwindSafe(f));
    IN_SUBJECT.with(|c| c.set(prev));
    match r {
        Ok(v) => v,
        Err(_) => {
            let mut g = CTOR_PANICS.lock().unwrap();
            if !g.iter().any(|x| x.0 == label) {
                g.push((label.to_string(), last_panic()));
            }
            None
        }
    }
}
pub static CTOR_PANICS: std::sync::Mutex<Vec<(String, String)>> = std::sync::Mutex::new(Vec::new());

/// Install a quiet panic hook that remembers message and location per thread.
pub fn install_panic_hook() {
    std::panic::set_hook(Box::new(|info| {
        let loc = info.location().map(|l| format!("{}:{}", l.file(), l.line())).unwrap_or_default();
        let msg = if let Some(s) = info.payload().downcast_ref::<&str>() {
            s.to_string()
        } else if let Some(s) = info.payload().downcast_ref::<String>() {
            s.clone()
        } else if info.payload().downcast_ref::<WordCapExceeded>().is_some() {
            "WordCapExceeded".to_string()
        } else {
            "<non-string panic>".to_string()
        };
        // strip the absolute prefix so keys are stable
        let loc = loc.rsplit_once("/repo/").map(|x| x.1.to_string()).unwrap_or(loc);
        if !IN_SUBJECT.with(|c| c.get()) {
            eprintln!("machinery panic (harness bug, not a verdict): {msg} @ {loc}");
        }
        LAST_PANIC.with(|p| *p.borrow_mut() = format!("{msg} @ {loc}"));
    }));
}

pub fn last_panic() -> String {
    LAST_PANIC.with(|p| p.borrow().clone())
}

#[derive(Clone, Debug, PartialEq)]
pub enum Outcome {
    Done(Sample),
    Panic(String),
    Cap,
}

#[derive(Clone, Debug)]
pub struct Exec {
    pub out: Outcome,
    pub requests: u32,
    pub overrun: bool,
    pub over_tag: u8,
    pub over_mid: bool,
    pub cont_after: SplitMix,
}

#[inline]
pub fn run_rng(s: &dyn Sampler, rng: &mut ScriptRng) -> Outcome {
    match catch_unwind(AssertUnwindSafe(|| in_subject(|| s.sample(rng)))) {
        Ok(v) => Outcome::Done(v),
        Err(p) => {
            if p.downcast_ref::<WordCapExceeded>().is_some() {
                Outcome::Cap
            } else {
                Outcome::Panic(last_panic())
            }
        }
    }
}

#[inline]
pub fn run(s: &dyn Sampler, script: &[u64], cont_seed: u64, tags: bool) -> Exec {
    let mut rng = ScriptRng::new(script, cont_seed);
    rng.tags = tags;
    let out = run_rng(s, &mut rng);
    Exec { out, requests: rng.pos, overrun: rng.overrun, over_tag: rng.over_tag, over_mid: rng.over_mid, cont_after: rng.cont }
}

#[inline]
pub fn run_cont(s: &dyn Sampler, script: &[u64], cont: SplitMix) -> Exec {
    let mut rng = ScriptRng::with_cont(script, cont);
    let out = run_rng(s, &mut rng);
    Exec { out, requests: rng.pos, overrun: rng.overrun, over_tag: 0, over_mid: false, cont_after: rng.cont }
}
