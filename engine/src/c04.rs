//! C04: constructors accept exactly the documented domain, never panic; accessors report the arguments.
//! Exhaustive over the cross product of a special-value lattice per argument (engine F).

use crate::cases::Tier;
use crate::exec::in_subject;
use crate::report::Report;
use rand_distr::multi::{Dirichlet, MultiDistribution};
use rand_distr::*;
use serde_json::json;
use std::panic::{AssertUnwindSafe, catch_unwind};

#[derive(Clone, Debug, PartialEq)]
pub enum Doc {
    Ok,
    /// must be an error; any of these variants is acceptable
    Err(Vec<&'static str>),
    /// Ok or one of these variants (documentation silent / self-contradictory): only "no panic" is judged
    Unspec,
}

fn lattice64() -> Vec<f64> {
    let ml = 1.844e19f64;
    let up = |x: f64| f64::from_bits(x.to_bits() + 1);
    let dn = |x: f64| f64::from_bits(x.to_bits() - 1);
    let mut v = vec![
        f64::NAN, f64::INFINITY, f64::NEG_INFINITY, 0.0, -0.0, 5e-324, -5e-324, dn(f64::MIN_POSITIVE), -dn(f64::MIN_POSITIVE), f64::MIN_POSITIVE, -f64::MIN_POSITIVE,
        f64::MAX, -f64::MAX, 1.0, -1.0, up(1.0), dn(1.0), 0.1, -0.1, up(0.1), dn(0.1), 2.0 / 3.0, up(2.0 / 3.0), dn(2.0 / 3.0), 0.5, 12.0, up(12.0), dn(12.0),
        ml, up(ml), dn(ml), 2.0, -2.0, 1e-3, -1e-3, 1e3, -1e3, 1e300, -1e300, 3.0, 0.25,
    ];
    v.dedup_by(|a, b| a.to_bits() == b.to_bits());
    v
}
fn lattice32() -> Vec<f64> {
    let ml = 1.844e19f32;
    let up = |x: f32| f32::from_bits(x.to_bits() + 1);
    let dn = |x: f32| f32::from_bits(x.to_bits() - 1);
    let v: Vec<f32> = vec![
        f32::NAN, f32::INFINITY, f32::NEG_INFINITY, 0.0, -0.0, 1e-45, -1e-45, dn(f32::MIN_POSITIVE), -dn(f32::MIN_POSITIVE), f32::MIN_POSITIVE, -f32::MIN_POSITIVE,
        f32::MAX, -f32::MAX, 1.0, -1.0, up(1.0), dn(1.0), 0.1, -0.1, up(0.1), dn(0.1), 2.0 / 3.0, up(2.0 / 3.0), dn(2.0 / 3.0), 0.5, 12.0, up(12.0), dn(12.0),
        ml, up(ml), dn(ml), 2.0, -2.0, 1e-3, -1e-3, 1e3, -1e3, 1e30, -1e30, 3.0, 0.25,
    ];
    v.into_iter().map(|x| x as f64).collect()
}
fn lattice_u64() -> Vec<u64> {
    vec![0, 1, 2, 3, 10, 1 << 32, 1 << 53, (1 << 63) - 1, 1 << 63, u64::MAX - 2, u64::MAX - 1, u64::MAX]
}

type Call = Box<dyn Fn(&[f64]) -> Result<Option<String>, String> + Send + Sync>;
type Oracle = Box<dyn Fn(&[f64]) -> Doc + Send + Sync>;

struct Ctor {
    name: String,
    arity: usize,
    is32: bool,
    call: Call,
    doc: Oracle,
}

fn notpos(x: f64) -> bool {
    !(x > 0.0)
}
fn nonfin(x: f64) -> bool {
    !x.is_finite()
}

macro_rules! ctors_for {
    ($v:ident, $F:ty, $tn:expr, $is32:expr) => {{
        type F = $F;
        let n = |s: &str| format!("{}<{}>::{}", s.split("::").next().unwrap(), $tn, s.split("::").nth(1).unwrap_or("new"));
        let e = |r: Result<(), String>| r.map(|_| None);
        macro_rules! dbg_err { ($r:expr) => { $r.map(|_| ()).map_err(|x| format!("{:?}", x)) } }
        let subn = |x: f64| { let y = x as F; y != 0.0 && y.is_finite() && !y.is_normal() };
        // Beta
        $v.push(Ctor { name: n("Beta::new"), arity: 2, is32: $is32, call: Box::new(move |a| e(dbg_err!(Beta::<F>::new(a[0] as F, a[1] as F)))),
            doc: Box::new(|a| { let mut v = vec![]; if notpos(a[0]) { v.push("AlphaTooSmall") } if notpos(a[1]) { v.push("BetaTooSmall") } if v.is_empty() { Doc::Ok } else { Doc::Err(v) } }) });
        $v.push(Ctor { name: n("Cauchy::new"), arity: 2, is32: $is32, call: Box::new(move |a| e(dbg_err!(Cauchy::<F>::new(a[0] as F, a[1] as F)))),
            doc: Box::new(|a| if notpos(a[1]) { Doc::Err(vec!["ScaleTooSmall"]) } else if nonfin(a[0]) { Doc::Unspec } else { Doc::Ok }) });
        $v.push(Ctor { name: n("ChiSquared::new"), arity: 1, is32: $is32, call: Box::new(move |a| e(dbg_err!(ChiSquared::<F>::new(a[0] as F)))),
            doc: Box::new(|a| if !((0.5 * a[0] as F) > 0.0) { Doc::Err(vec!["DoFTooSmall"]) } else if a[0].is_infinite() { Doc::Unspec } else { Doc::Ok }) });
        $v.push(Ctor { name: n("StudentT::new"), arity: 1, is32: $is32, call: Box::new(move |a| e(dbg_err!(StudentT::<F>::new(a[0] as F)))),
            doc: Box::new(|a| if !((0.5 * a[0] as F) > 0.0) { Doc::Err(vec!["DoFTooSmall"]) } else if a[0].is_infinite() { Doc::Unspec } else { Doc::Ok }) });
        $v.push(Ctor { name: n("FisherF::new"), arity: 2, is32: $is32, call: Box::new(move |a| e(dbg_err!(FisherF::<F>::new(a[0] as F, a[1] as F)))),
            doc: Box::new(|a| { let mut v = vec![]; if !((0.5 * a[0] as F) > 0.0) { v.push("MTooSmall") } if !((0.5 * a[1] as F) > 0.0) { v.push("NTooSmall") }
                if !v.is_empty() { Doc::Err(v) } else if a[0].is_infinite() || a[1].is_infinite() { Doc::Unspec } else { Doc::Ok } }) });
        $v.push(Ctor { name: n("Exp::new"), arity: 1, is32: $is32, call: Box::new(move |a| e(dbg_err!(Exp::<F>::new(a[0] as F)))),
            doc: Box::new(|a| if a[0].is_nan() || a[0].is_sign_negative() { Doc::Err(vec!["LambdaTooSmall"]) } else if a[0].is_infinite() { Doc::Unspec } else { Doc::Ok }) });
        $v.push(Ctor { name: n("Frechet::new"), arity: 3, is32: $is32, call: Box::new(move |a| e(dbg_err!(Frechet::<F>::new(a[0] as F, a[1] as F, a[2] as F)))),
            doc: Box::new(|a| { let mut v = vec![]; if nonfin(a[0]) { v.push("LocationNotFinite") } if notpos(a[1]) || nonfin(a[1]) { v.push("ScaleNotPositive") } if notpos(a[2]) || nonfin(a[2]) { v.push("ShapeNotPositive") }
                if v.is_empty() { Doc::Ok } else { Doc::Err(v) } }) });
        $v.push(Ctor { name: n("Gumbel::new"), arity: 2, is32: $is32, call: Box::new(move |a| e(dbg_err!(Gumbel::<F>::new(a[0] as F, a[1] as F)))),
            doc: Box::new(|a| { let mut v = vec![]; if nonfin(a[0]) { v.push("LocationNotFinite") } if notpos(a[1]) || nonfin(a[1]) { v.push("ScaleNotPositive") } if v.is_empty() { Doc::Ok } else { Doc::Err(v) } }) });
        $v.push(Ctor { name: n("Gamma::new"), arity: 2, is32: $is32, call: Box::new(move |a| e(dbg_err!(Gamma::<F>::new(a[0] as F, a[1] as F)))),
            doc: Box::new(|a| { let mut v = vec![]; if notpos(a[0]) { v.push("ShapeTooSmall") } if notpos(a[1]) { v.push("ScaleTooSmall") }
                if !v.is_empty() { Doc::Err(v) } else if a[1].is_infinite() || a[0].is_infinite() { Doc::Unspec } else { Doc::Ok } }) });
        $v.push(Ctor { name: n("InverseGaussian::new"), arity: 2, is32: $is32, call: Box::new(move |a| e(dbg_err!(InverseGaussian::<F>::new(a[0] as F, a[1] as F)))),
            doc: Box::new(|a| { let mut v = vec![]; if notpos(a[0]) { v.push("MeanNegativeOrNull") } if notpos(a[1]) { v.push("ShapeNegativeOrNull") } if v.is_empty() { Doc::Ok } else { Doc::Err(v) } }) });
        $v.push(Ctor { name: n("Normal::new"), arity: 2, is32: $is32,
            call: Box::new(move |a| match Normal::<F>::new(a[0] as F, a[1] as F) {
                Ok(d) => { let (m, s) = (d.mean(), d.std_dev()); let same = |x: F, y: F| x.to_bits() == y.to_bits(); Ok(if same(m, a[0] as F) && same(s, a[1] as F) { None } else { Some(format!("mean()={m:?} std_dev()={s:?}")) }) }
                Err(x) => Err(format!("{:?}", x)) }),
            doc: Box::new(|a| if nonfin(a[1]) { Doc::Err(vec!["BadVariance"]) } else { Doc::Ok }) });
        $v.push(Ctor { name: n("Normal::from_mean_cv"), arity: 2, is32: $is32,
            call: Box::new(move |a| match Normal::<F>::from_mean_cv(a[0] as F, a[1] as F) {
                Ok(d) => { let m = d.mean(); let s = d.std_dev(); let exp = (a[1] as F) * (a[0] as F); Ok(if m.to_bits() == (a[0] as F).to_bits() && (s.to_bits() == exp.to_bits() || (s.is_nan() && exp.is_nan())) { None } else { Some(format!("mean()={m:?} std_dev()={s:?}")) }) }
                Err(x) => Err(format!("{:?}", x)) }),
            doc: Box::new(|a| if nonfin(a[1]) || a[1] < 0.0 { Doc::Err(vec!["BadVariance"]) } else { Doc::Ok }) });
        $v.push(Ctor { name: n("LogNormal::new"), arity: 2, is32: $is32, call: Box::new(move |a| e(dbg_err!(LogNormal::<F>::new(a[0] as F, a[1] as F)))),
            doc: Box::new(|a| if nonfin(a[1]) { Doc::Err(vec!["BadVariance"]) } else { Doc::Ok }) });
        $v.push(Ctor { name: n("LogNormal::from_mean_cv"), arity: 2, is32: $is32, call: Box::new(move |a| e(dbg_err!(LogNormal::<F>::from_mean_cv(a[0] as F, a[1] as F)))),
            doc: Box::new(|a| {
                let (mean, cv) = (a[0], a[1]);
                if mean == 0.0 && cv == 0.0 && !mean.is_nan() { return Doc::Ok; } // documented exception
                let mut v = vec![];
                if !(mean > 0.0) { v.push("MeanTooSmall") }
                if !(cv >= 0.0) || cv.is_infinite() { v.push("BadVariance") }
                if !v.is_empty() { Doc::Err(v) } else if mean.is_infinite() { Doc::Unspec } else {
                    // the derived sigma/mu may overflow for extreme finite arguments: documented only as "not finite" dispersion
                    let af = 1.0 + (cv as F) * (cv as F); let mu = ((mean as F) * (mean as F) / af).ln(); let sg = af.ln().sqrt();
                    if !sg.is_finite() || !mu.is_finite() { Doc::Unspec } else { Doc::Ok } } }) });
        $v.push(Ctor { name: n("NormalInverseGaussian::new"), arity: 2, is32: $is32, call: Box::new(move |a| e(dbg_err!(NormalInverseGaussian::<F>::new(a[0] as F, a[1] as F)))),
            doc: Box::new(|a| { let mut v = vec![]; if notpos(a[0]) { v.push("AlphaNegativeOrNull") } if !(a[1].abs() < a[0]) { v.push("AbsoluteBetaNotLessThanAlpha") } if a[0].is_infinite() && a[0] > 0.0 { v.push("AlphaInfinite") }
                // "too close to the maximum finite value" is only documented for targets without subnormals: judged as unspecified above MAX/2
                if !v.is_empty() { Doc::Err(v) } else if (a[0] as F) > F::MAX / 2.0 { Doc::Unspec } else { Doc::Ok } }) });
        $v.push(Ctor { name: n("Pareto::new"), arity: 2, is32: $is32, call: Box::new(move |a| e(dbg_err!(Pareto::<F>::new(a[0] as F, a[1] as F)))),
            doc: Box::new(|a| { let mut v = vec![]; if notpos(a[0]) { v.push("ScaleTooSmall") } if notpos(a[1]) { v.push("ShapeTooSmall") } if v.is_empty() { Doc::Ok } else { Doc::Err(v) } }) });
        $v.push(Ctor { name: n("Weibull::new"), arity: 2, is32: $is32, call: Box::new(move |a| e(dbg_err!(Weibull::<F>::new(a[0] as F, a[1] as F)))),
            doc: Box::new(|a| { let mut v = vec![]; if notpos(a[0]) { v.push("ScaleTooSmall") } if notpos(a[1]) { v.push("ShapeTooSmall") } if v.is_empty() { Doc::Ok } else { Doc::Err(v) } }) });
        $v.push(Ctor { name: n("Poisson::new"), arity: 1, is32: $is32, call: Box::new(move |a| e(dbg_err!(Poisson::<F>::new(a[0] as F)))),
            doc: Box::new(|a| { let l = a[0]; if l.is_nan() || l.is_infinite() { Doc::Err(vec!["NonFinite"]) } else if l <= 0.0 { Doc::Err(vec!["ShapeTooSmall"]) } else if (l as F) > (1.844e19f64 as F) { Doc::Err(vec!["ShapeTooLarge"]) } else { Doc::Ok } }) });
        $v.push(Ctor { name: n("SkewNormal::new"), arity: 3, is32: $is32,
            call: Box::new(move |a| match SkewNormal::<F>::new(a[0] as F, a[1] as F, a[2] as F) {
                Ok(d) => { let same = |x: F, y: F| x.to_bits() == y.to_bits(); Ok(if same(d.location(), a[0] as F) && same(d.scale(), a[1] as F) && same(d.shape(), a[2] as F) { None } else { Some(format!("location()={:?} scale()={:?} shape()={:?}", d.location(), d.scale(), d.shape())) }) }
                Err(x) => Err(format!("{:?}", x)) }),
            doc: Box::new(|a| { let mut v = vec![]; if nonfin(a[1]) || notpos(a[1]) { v.push("ScaleTooSmall") } if nonfin(a[2]) { v.push("BadShape") } if v.is_empty() { Doc::Ok } else { Doc::Err(v) } }) });
        $v.push(Ctor { name: n("Triangular::new"), arity: 3, is32: $is32, call: Box::new(move |a| e(dbg_err!(Triangular::<F>::new(a[0] as F, a[1] as F, a[2] as F)))),
            doc: Box::new(|a| { let (mn, mx, mo) = (a[0], a[1], a[2]); let mut v = vec![]; if mx < mn || mn.is_nan() || mx.is_nan() { v.push("RangeTooSmall") } if mo < mn || mo > mx || mo.is_nan() { v.push("ModeRange") }
                if !v.is_empty() { Doc::Err(v) } else if nonfin(mn) || nonfin(mx) { Doc::Unspec } else { Doc::Ok } }) });
        $v.push(Ctor { name: n("Pert::with_mode"), arity: 4, is32: $is32, call: Box::new(move |a| e(dbg_err!(Pert::<F>::new(a[0] as F, a[1] as F).with_shape(a[3] as F).with_mode(a[2] as F)))),
            doc: Box::new(|a| { let (mn, mx, mo, sh) = (a[0], a[1], a[2], a[3]); let mut v = vec![]; if mx < mn || mn.is_nan() || mx.is_nan() { v.push("RangeTooSmall") }
                // max == min: the variant's text says "max < min", the Display text and the builder say "min < max is required": either verdict is accepted
                if mx == mn { return Doc::Unspec; } if mo < mn || mo > mx || mo.is_nan() { v.push("ModeRange") } if sh < 0.0 || sh.is_nan() { v.push("ShapeTooSmall") }
                if !v.is_empty() { Doc::Err(v) } else if mx == mn || nonfin(mn) || nonfin(mx) || nonfin(sh) || nonfin(((mx as F) - (mn as F)) as f64) { Doc::Unspec } else { Doc::Ok } }) });
        $v.push(Ctor { name: n("Pert::with_mean"), arity: 4, is32: $is32, call: Box::new(move |a| e(dbg_err!(Pert::<F>::new(a[0] as F, a[1] as F).with_shape(a[3] as F).with_mean(a[2] as F)))),
            doc: Box::new(|_a| Doc::Unspec) });
        $v.push(Ctor { name: n("Zeta::new"), arity: 1, is32: $is32, call: Box::new(move |a| e(dbg_err!(Zeta::<F>::new(a[0] as F)))),
            doc: Box::new(|a| if !(a[0] > 1.0) { Doc::Err(vec!["STooSmall"]) } else { Doc::Ok }) });
        $v.push(Ctor { name: n("Zipf::new"), arity: 2, is32: $is32, call: Box::new(move |a| e(dbg_err!(Zipf::<F>::new(a[0] as F, a[1] as F)))),
            doc: Box::new(|a| { let (nn, s) = (a[0], a[1]); let mut v = vec![]; if s < 0.0 || s.is_nan() { v.push("STooSmall") } if nn < 1.0 || nn.is_nan() { v.push("NTooSmall") } if nn == f64::INFINITY && s <= 1.0 { v.push("IllDefined") }
                if !v.is_empty() { Doc::Err(v) } else { Doc::Ok } }) });
        // Dirichlet over vectors of length 0..3 (arity encodes the length + 1 as a selector in a[0])
        for len in 0..=3usize {
            $v.push(Ctor { name: format!("Dirichlet<{}>::new(len={})", $tn, len), arity: len, is32: $is32,
                call: Box::new(move |a| { let al: Vec<F> = a.iter().map(|&x| x as F).collect(); match Dirichlet::<F>::new(&al) { Ok(d) => Ok(if d.sample_len() == al.len() { None } else { Some(format!("sample_len()={}", d.sample_len())) }), Err(x) => Err(format!("{:?}", x)) } }),
                doc: Box::new(move |a| { let mut v = vec![]; if a.len() < 2 { v.push("AlphaTooShort") } if a.iter().any(|&x| notpos(x)) { v.push("AlphaTooSmall") } if a.iter().any(|&x| x == f64::INFINITY) { v.push("AlphaInfinite") } if a.iter().any(|&x| subn(x)) { v.push("AlphaSubnormal") }
                    if v.is_empty() { Doc::Ok } else { Doc::Err(v) } }) });
        }
    }};
}

pub fn run(tier: Tier, seed: u64) -> i32 {
    let rep = Report::new("C04", "exploration", if tier == Tier::Quick { "quick" } else { "thorough" }, seed);
    let mut ctors: Vec<Ctor> = vec![];
    ctors_for!(ctors, f64, "f64", false);
    ctors_for!(ctors, f32, "f32", true);
    let (l64, l32) = (lattice64(), lattice32());
    let mut evals = 0u64;
    let mut distinct = std::collections::BTreeSet::new();
    let mut n_ok = 0u64;
    let mut n_err = 0u64;
    let mut n_unspec = 0u64;
    for c in &ctors {
        let lat = if c.is32 { &l32 } else { &l64 };
        let n = lat.len();
        let total = n.pow(c.arity as u32);
        let mut idx = vec![0usize; c.arity];
        for _ in 0..total {
            let args: Vec<f64> = idx.iter().map(|&i| lat[i]).collect();
            evals += 1;
            let expect = (c.doc)(&args);
            let got = catch_unwind(AssertUnwindSafe(|| in_subject(|| (c.call)(&args))));
            let argstr = format!("{:?}", args);
            let class = |x: f64| if x.is_nan() { "nan" } else if x == f64::INFINITY { "+inf" } else if x == f64::NEG_INFINITY { "-inf" } else if x == 0.0 { "zero" } else if x < 0.0 { "neg" } else { "pos" };
            let argclass: Vec<&str> = args.iter().map(|&x| class(x)).collect();
            match got {
                Err(_) => {
                    rep.violation(format!("{}|panic|{}|{:?}", c.name, crate::exec::last_panic().chars().take(60).collect::<String>(), argclass), format!("{}({}) panicked: {}", c.name, argstr, crate::exec::last_panic()), json!({"constructor": c.name, "args": args, "arg_bits": args.iter().map(|x| format!("{:#x}", x.to_bits())).collect::<Vec<_>>()}));
                }
                Ok(r) => {
                    distinct.insert(format!("{}:{:?}", c.name, r.as_ref().map(|_| ()).map_err(|e| e.clone())));
                    match (&expect, &r) {
                        (Doc::Unspec, _) => n_unspec += 1,
                        (Doc::Ok, Ok(None)) => n_ok += 1,
                        (Doc::Ok, Ok(Some(acc))) => rep.violation(format!("{}|accessor|{:?}", c.name, argclass), format!("{}({}) accessors do not report the arguments: {}", c.name, argstr, acc), json!({"constructor": c.name, "args": args})),
                        (Doc::Ok, Err(e)) => rep.violation(format!("{}|unexpected-err|{}|{:?}", c.name, e, argclass), format!("{}({}) returned Err({}) although no documented error condition holds", c.name, argstr, e), json!({"constructor": c.name, "args": args})),
                        (Doc::Err(vs), Ok(_)) => rep.violation(format!("{}|accepted|{}|{:?}", c.name, vs.join("+"), argclass), format!("{}({}) returned Ok although the documented condition of {} holds", c.name, argstr, vs.join("/")), json!({"constructor": c.name, "args": args})),
                        (Doc::Err(vs), Err(e)) => {
                            if vs.iter().any(|v| v == e) { n_err += 1 } else {
                                rep.violation(format!("{}|wrong-variant|{}|{:?}", c.name, e, argclass), format!("{}({}) returned Err({}) whose documented condition does not hold (expected one of {})", c.name, argstr, e, vs.join("/")), json!({"constructor": c.name, "args": args}))
                            }
                        }
                    }
                }
            }
            // next index
            for d in 0..c.arity {
                idx[d] += 1;
                if idx[d] < n { break; }
                idx[d] = 0;
            }
        }
        if c.arity > 0 {
            rep.sample(json!({"constructor": c.name, "arity": c.arity, "lattice_points_per_argument": n, "calls": total}));
        }
    }
    // integer-argument constructors
    let lu = lattice_u64();
    let pl: Vec<f64> = l64.clone();
    for &n in &lu {
        for &p in &pl {
            evals += 1;
            let exp = if p.is_nan() || p < 0.0 { Some("ProbabilityTooSmall") } else if p > 1.0 { Some("ProbabilityTooLarge") } else { None };
            match catch_unwind(AssertUnwindSafe(|| in_subject(|| Binomial::new(n, p).map(|_| ()).map_err(|e| format!("{:?}", e))))) {
                Err(_) => rep.violation(format!("Binomial::new|panic|{}", crate::exec::last_panic().chars().take(60).collect::<String>()), format!("Binomial::new({n}, {p:?}) panicked: {}", crate::exec::last_panic()), json!({"n": n, "p": p})),
                Ok(r) => match (exp, r) {
                    (None, Ok(())) => n_ok += 1,
                    (Some(v), Err(e)) if e == v => n_err += 1,
                    (ex, r) => rep.violation(format!("Binomial::new|mismatch|{:?}|{:?}", ex, r), format!("Binomial::new({n}, {p:?}) returned {:?}, documentation implies {:?}", r, ex), json!({"n": n, "p": p})),
                },
            }
        }
    }
    for &p in &pl {
        evals += 1;
        let exp_err = p.is_nan() || !(0.0..=1.0).contains(&p);
        match catch_unwind(AssertUnwindSafe(|| in_subject(|| Geometric::new(p).is_err()))) {
            Err(_) => rep.violation("Geometric::new|panic".into(), format!("Geometric::new({p:?}) panicked: {}", crate::exec::last_panic()), json!({"p": p})),
            Ok(e) => if e == exp_err { if e { n_err += 1 } else { n_ok += 1 } } else { rep.violation(format!("Geometric::new|mismatch|{}", e), format!("Geometric::new({p:?}) is_err()={e}, documentation implies {exp_err}"), json!({"p": p})) },
        }
    }
    // Hypergeometric::new over the u64 lattice: some constructions take time linear in N (a C05 matter); all calls are
    // started together and given one common deadline, the unfinished ones are recorded as slow and not judged here
    let mut slow: Vec<String> = vec![];
    {
        let (tx, rx) = std::sync::mpsc::channel();
        let mut args = vec![];
        for &nn in &lu {
            for &kk in &lu {
                for &n in &lu {
                    args.push((nn, kk, n));
                }
            }
        }
        for (i, &(nn, kk, n)) in args.iter().enumerate() {
            let tx = tx.clone();
            std::thread::Builder::new().stack_size(256 << 10).spawn(move || {
                crate::exec::set_managed(true);
                let r = catch_unwind(AssertUnwindSafe(|| in_subject(|| Hypergeometric::new(nn, kk, n).map(|_| ()).map_err(|e| format!("{:?}", e))))).map_err(|_| crate::exec::last_panic());
                let _ = tx.send((i, r));
            }).expect("spawn");
        }
        drop(tx);
        let deadline = std::time::Instant::now() + std::time::Duration::from_secs(6);
        let mut results: Vec<Option<Result<Result<(), String>, String>>> = vec![None; args.len()];
        let mut got_n = 0;
        while got_n < args.len() {
            let now = std::time::Instant::now();
            if now >= deadline { break; }
            match rx.recv_timeout(deadline - now) {
                Ok((i, r)) => { results[i] = Some(r); got_n += 1; }
                Err(_) => break,
            }
        }
        for (i, &(nn, kk, n)) in args.iter().enumerate() {
            evals += 1;
            let mut exp = vec![];
            if kk > nn { exp.push("ProbabilityTooLarge") }
            if n > nn { exp.push("SampleSizeTooLarge") }
            match &results[i] {
                None => slow.push(format!("Hypergeometric::new({nn}, {kk}, {n})")),
                Some(Err(pm)) => rep.violation(format!("Hypergeometric::new|panic|{}", pm.chars().take(70).collect::<String>()), format!("Hypergeometric::new({nn}, {kk}, {n}) panicked: {}", pm), json!({"N": nn, "K": kk, "n": n})),
                Some(Ok(r)) => match r {
                    Ok(()) => if exp.is_empty() { n_ok += 1 } else { rep.violation(format!("Hypergeometric::new|accepted|{}", exp.join("+")), format!("Hypergeometric::new({nn}, {kk}, {n}) returned Ok although {} holds", exp.join("/")), json!({"N": nn, "K": kk, "n": n})) },
                    Err(e) => if exp.iter().any(|v| v == e) || (exp.is_empty() && e == "PopulationTooLarge") { n_err += 1 } else { rep.violation(format!("Hypergeometric::new|wrong-variant|{}", e), format!("Hypergeometric::new({nn}, {kk}, {n}) returned Err({e}), expected {:?}", exp), json!({"N": nn, "K": kk, "n": n})) },
                },
            }
        }
    }
    let skipped_slow = 0u64;
    rep.set("evaluations", json!(evals));
    rep.set("constructor_calls_abandoned_after_1.5s_not_judged_here_see_C05", json!(slow));
    rep.set("hypergeometric_calls_skipped_after_three_slow_constructions", json!(skipped_slow));
    rep.set("distinct_nontrivial", json!(distinct.len()));
    rep.set("rule", json!("every public float constructor x full cross product of a ~41-value special lattice per argument (NaN, +-inf, +-0, subnormals, MIN_POSITIVE, MAX, thresholds +-1ulp) for f32 and f64; Binomial/Geometric/Hypergeometric over a 12-value u64 lattice; a (constructor, verdict) pair counts as one distinct non-trivial outcome"));
    rep.set("exhaustive", json!(true));
    rep.set("constructors", json!(ctors.len() + 3));
    rep.set("verdicts", json!({"ok_as_documented": n_ok, "err_as_documented": n_err, "unspecified_not_judged": n_unspec}));
    rep.assume("the oracle table is transcribed from the doc comments of each error variant; regions where the documentation is silent or contradicts itself (infinite location/scale/dof, Pert max == min, with_mean) are only judged for 'no panic'");
    rep.assume("weighted-index constructors and mutators are judged by C08/C09 over their own alphabets");
    rep.finish()
}

/// run `f` on a helper thread; None if it does not return within `d` (the thread is abandoned)
fn with_timeout<T: Send + 'static>(d: std::time::Duration, f: impl FnOnce() -> T + Send + 'static) -> Option<T> {
    let (tx, rx) = std::sync::mpsc::channel();
    std::thread::spawn(move || {
        crate::exec::set_managed(true);
        let _ = tx.send(f());
    });
    rx.recv_timeout(d).ok()
}
