//! C09 (consistency under any update history) and C10 (proportional sampling in every reached state):
//! explicit-state breadth-first exploration of WeightedTreeIndex<W> histories on the real structure.

use crate::cases::Tier;
use crate::dev::lambda_words;
use crate::exec::in_subject;
use crate::report::Report;
use crate::rng::ScriptRng;
use rand::distr::uniform::SampleUniform;
use rand::distr::weighted::Weight;
use rand_distr::weighted::{Error as WErr, WeightedTreeIndex};
use serde_json::json;
use std::collections::{HashMap, VecDeque};
use std::fmt::Debug;
use std::panic::{AssertUnwindSafe, catch_unwind};

pub trait TW: Clone + PartialEq + PartialOrd + SampleUniform + std::ops::SubAssign<Self> + Weight + Debug + Send + Sync + 'static {
    const NAME: &'static str;
    const IS_FLOAT: bool;
    fn alphabet() -> Vec<Self>;
    fn valid(&self) -> bool;
    /// exact value for the reference arithmetic (ints) / f64 value (floats)
    fn as_i(&self) -> i128;
    fn as_f(&self) -> f64;
    fn max_i() -> i128;
    fn ulp(x: f64) -> f64;
}
macro_rules! tw_int {
    ($t:ty, $signed:expr) => {
        impl TW for $t {
            const NAME: &'static str = stringify!($t);
            const IS_FLOAT: bool = false;
            fn alphabet() -> Vec<Self> {
                let mut v: Vec<$t> = vec![0, 1, 2, <$t>::MAX / 2 + 1, <$t>::MAX - 1, <$t>::MAX];
                if $signed { v.push((0 as $t).wrapping_sub(1)); }
                v
            }
            fn valid(&self) -> bool { *self >= (0 as $t) }
            fn as_i(&self) -> i128 { if (*self as u128) > (i128::MAX as u128) && !$signed { i128::MAX } else { *self as i128 } }
            fn as_f(&self) -> f64 { *self as f64 }
            fn max_i() -> i128 { if (<$t>::MAX as u128) > (i128::MAX as u128) { i128::MAX } else { <$t>::MAX as i128 } }
            fn ulp(_x: f64) -> f64 { 0.0 }
        }
    };
}
tw_int!(u8, false);
tw_int!(i8, true);
tw_int!(u32, false);
tw_int!(i64, true);
tw_int!(u64, false);
macro_rules! tw_float {
    ($t:ty) => {
        impl TW for $t {
            const NAME: &'static str = stringify!($t);
            const IS_FLOAT: bool = true;
            fn alphabet() -> Vec<Self> { vec![0.0, 0.1, 0.2, 0.3, 1e30, -1.0, <$t>::NAN, -0.0] }
            fn valid(&self) -> bool { *self >= 0.0 }
            fn as_i(&self) -> i128 { 0 }
            fn as_f(&self) -> f64 { *self as f64 }
            fn max_i() -> i128 { i128::MAX }
            fn ulp(x: f64) -> f64 { let a = (x as $t).abs(); if a == 0.0 { <$t>::MIN_POSITIVE as f64 } else { (<$t>::from_bits(a.to_bits() + 1) - a) as f64 } }
        }
    };
}
tw_float!(f32);
tw_float!(f64);

#[derive(Clone, Debug)]
enum Op<W> {
    Push(W),
    Pop,
    Update(usize, W),
}

pub struct TreeStats {
    pub states: u64,
    pub transitions: u64,
    pub sample_execs: u64,
    pub sample_states_exact: u64,
    pub distinct_lists: u64,
}

fn render<W: TW>(v: &[W]) -> String {
    format!("{:?}", v)
}

pub fn explore<W: TW>(rep: &Report, prop: &str, depth: usize, cap: usize, do_sampling: bool) -> TreeStats {
    let alpha = W::alphabet();
    let mut queue: VecDeque<(WeightedTreeIndex<W>, Vec<W>, usize, String, f64)> = VecDeque::new();
    let mut seen: HashMap<String, ()> = HashMap::new();
    let mut st = TreeStats { states: 0, transitions: 0, sample_execs: 0, sample_states_exact: 0, distinct_lists: 0 };
    let mut lists: HashMap<String, ()> = HashMap::new();
    let tn = W::NAME;
    let viol = |kind: &str, what: String, hist: &str| {
        rep.violation(format!("WeightedTreeIndex<{tn}>|{kind}"), format!("WeightedTreeIndex<{tn}>: {what} [history: {hist}]"), json!({"type": tn, "history": hist, "what": what}));
    };
    // initial states: new(ws), |ws| <= 3
    let mut inits: Vec<Vec<W>> = vec![vec![]];
    for len in 1..=3usize {
        let mut idx = vec![0usize; len];
        loop {
            inits.push(idx.iter().map(|&i| alpha[i].clone()).collect());
            let mut d = 0;
            loop {
                idx[d] += 1;
                if idx[d] < alpha.len() { break; }
                idx[d] = 0;
                d += 1;
                if d == len { break; }
            }
            if d == len { break; }
        }
    }
    for ws in inits {
        st.transitions += 1;
        let hist = format!("new({})", render(&ws));
        let r = catch_unwind(AssertUnwindSafe(|| in_subject(|| WeightedTreeIndex::new(ws.clone()))));
        let any_invalid = ws.iter().any(|w| !w.valid());
        let overflow = !W::IS_FLOAT && ws.iter().filter(|w| w.valid()).map(|w| w.as_i()).sum::<i128>() > W::max_i();
        match r {
            Err(_) => { if prop == "C09" { viol("panic", format!("new panicked: {}", crate::exec::last_panic()), &hist) } }
            Ok(Err(e)) => {
                if prop == "C09" {
                    let ok = (any_invalid && e == WErr::InvalidWeight) || (!any_invalid && overflow && e == WErr::Overflow);
                    if !ok { viol("wrong-error", format!("new returned Err({:?}) (invalid weight present: {any_invalid}, total overflows: {overflow})", e), &hist) }
                }
            }
            Ok(Ok(t)) => {
                if prop == "C09" && (any_invalid || overflow) {
                    viol("accepted", format!("new accepted a list with an invalid weight or an overflowing total (invalid: {any_invalid}, overflow: {overflow})"), &hist);
                    continue;
                }
                let key = format!("{:?}|{}", t, render(&ws));
                if seen.insert(key, ()).is_none() {
                    let mag: f64 = ws.iter().map(|w| w.as_f().abs()).sum();
                    queue.push_back((t, ws, 0, hist, mag));
                }
            }
        }
    }
    let lam = lambda_words();
    let mut prev_tree: Option<WeightedTreeIndex<W>> = None;
    while let Some((tree, list, d, hist, mag)) = queue.pop_front() {
        st.states += 1;
        if lists.insert(render(&list), ()).is_none() { st.distinct_lists += 1; }
        // ---- invariants of the state (C09)
        if prop == "C09" {
            let r = catch_unwind(AssertUnwindSafe(|| in_subject(|| {
                let mut bad: Option<String> = None;
                if tree.len() != list.len() { bad = Some(format!("len() = {} but the list has {}", tree.len(), list.len())); }
                if tree.is_empty() != list.is_empty() { bad = Some("is_empty() disagrees with the list".into()); }
                let total_f: f64 = list.iter().map(|w| w.as_f()).sum();
                for i in 0..list.len().min(tree.len()) {
                    let g = tree.get(i);
                    if W::IS_FLOAT {
                        // float subtotals absorb small weights next to large ones: rounding is relative to the largest total the tree has held
                        let tol = (list.len() as f64 + 4.0) * 8.0 * W::ulp(mag.max(total_f));
                        if !((g.as_f() - list[i].as_f()).abs() <= tol) { bad = Some(format!("get({i}) = {:?} but the weight is {:?} (tolerance {tol:e})", g, list[i])); }
                    } else if g != list[i] { bad = Some(format!("get({i}) = {:?} but the weight is {:?}", g, list[i])); }
                }
                let valid_ref = if W::IS_FLOAT { total_f > 0.0 } else { list.iter().any(|w| w.as_i() > 0) };
                if tree.is_valid() != valid_ref && !(W::IS_FLOAT && total_f.abs() <= (list.len() as f64 + 4.0) * 8.0 * W::ulp(mag.max(total_f))) { bad = Some(format!("is_valid() = {} but the weights {}", tree.is_valid(), if valid_ref { "have a positive total" } else { "are all zero" })); }
                if !W::IS_FLOAT {
                    match WeightedTreeIndex::new(list.clone()) {
                        Ok(fresh) => if fresh != tree { bad = Some(format!("differs from WeightedTreeIndex::new(list): {:?} vs {:?}", tree, fresh)); },
                        Err(e) => bad = Some(format!("WeightedTreeIndex::new(list) fails with {:?} for a reached list", e)),
                    }
                }
                bad
            })));
            match r {
                Err(_) => viol("panic", format!("an accessor panicked: {}", crate::exec::last_panic()), &hist),
                Ok(Some(b)) => viol("inconsistent", b, &hist),
                Ok(None) => {}
            }
        }
        // ---- Clone::clone_from onto a differently shaped target must give an equal, identically behaving value
        if prop == "C09" {
            if let Some(prev) = prev_tree.as_ref() {
                let r = catch_unwind(AssertUnwindSafe(|| in_subject(|| {
                    let mut t: WeightedTreeIndex<W> = prev.clone();
                    t.clone_from(&tree);
                    (format!("{:?}", t) == format!("{:?}", tree), t.len() == tree.len())
                })));
                match r {
                    Err(_) => viol("panic", format!("clone_from panicked: {}", crate::exec::last_panic()), &hist),
                    Ok((same_dbg, same_len)) => if !same_dbg || !same_len { viol("clone_from", format!("clone_from onto a tree of another shape ({:?}) does not reproduce the source", prev), &hist) },
                }
            }
            if st.states % 7 == 1 || prev_tree.is_none() {
                prev_tree = Some(tree.clone());
            }
        }
        // ---- sampling in this state (C10)
        if prop == "C10" && do_sampling {
            sample_state(rep, &tree, &list, &hist, &lam, &mut st, mag);
        }
        if d >= depth { continue; }
        // ---- transitions
        let mut ops: Vec<Op<W>> = vec![Op::Pop];
        if list.len() < cap { for w in &alpha { ops.push(Op::Push(w.clone())); } }
        for i in 0..list.len() { for w in &alpha { ops.push(Op::Update(i, w.clone())); } }
        for op in ops {
            st.transitions += 1;
            let mut t2 = tree.clone();
            let mut l2 = list.clone();
            let before = format!("{:?}", t2);
            let h2 = format!("{hist}; {:?}", op);
            let total: i128 = list.iter().map(|w| w.as_i()).sum();
            let r = catch_unwind(AssertUnwindSafe(|| in_subject(|| match &op {
                Op::Pop => Ok(t2.pop()),
                Op::Push(w) => t2.push(w.clone()).map(|_| None),
                Op::Update(i, w) => t2.update(*i, w.clone()).map(|_| None),
            })));
            let (exp_err, apply): (Option<WErr>, Box<dyn Fn(&mut Vec<W>)>) = match &op {
                Op::Pop => (None, Box::new(|l: &mut Vec<W>| { l.pop(); })),
                Op::Push(w) => {
                    let e = if !w.valid() { Some(WErr::InvalidWeight) } else if !W::IS_FLOAT && total + w.as_i() > W::max_i() { Some(WErr::Overflow) } else { None };
                    let w = w.clone();
                    (e, Box::new(move |l: &mut Vec<W>| l.push(w.clone())))
                }
                Op::Update(i, w) => {
                    let e = if !w.valid() { Some(WErr::InvalidWeight) } else if !W::IS_FLOAT && total - list[*i].as_i() + w.as_i() > W::max_i() { Some(WErr::Overflow) } else { None };
                    let (i, w) = (*i, w.clone());
                    (e, Box::new(move |l: &mut Vec<W>| l[i] = w.clone()))
                }
            };
            match r {
                Err(_) => { if prop == "C09" { viol("panic", format!("operation panicked: {}", crate::exec::last_panic()), &h2) } continue; }
                Ok(Err(e)) => {
                    if prop == "C09" {
                        if exp_err != Some(e) { viol("wrong-error", format!("returned Err({:?}), expected {:?}", e, exp_err), &h2); }
                        if format!("{:?}", t2) != before { viol("err-mutated", format!("returned Err({:?}) but changed the structure: {} -> {:?}", e, before, t2), &h2); }
                    }
                    continue;
                }
                Ok(Ok(ret)) => {
                    if let Some(e) = exp_err {
                        if prop == "C09" { viol("accepted", format!("succeeded although {:?} was expected", e), &h2); }
                        continue;
                    }
                    if let Op::Pop = op {
                        let expect = list.last().cloned();
                        let same = match (&ret, &expect) { (None, None) => true, (Some(a), Some(b)) => a == b || (W::IS_FLOAT && (a.as_f() - b.as_f()).abs() <= (list.len() as f64 + 4.0) * 8.0 * W::ulp(mag)), _ => false };
                        if !same && prop == "C09" { viol("pop-value", format!("pop returned {:?}, the last weight is {:?}", ret, expect), &h2); }
                    }
                    apply(&mut l2);
                }
            }
            let key = format!("{:?}|{}", t2, render(&l2));
            if seen.insert(key, ()).is_none() {
                let m2 = mag.max(l2.iter().map(|w| w.as_f().abs()).sum());
                queue.push_back((t2, l2, d + 1, h2, m2));
            }
        }
    }
    st
}

fn sample_state<W: TW>(rep: &Report, tree: &WeightedTreeIndex<W>, list: &[W], hist: &str, lam: &[u64], st: &mut TreeStats, mag: f64) {
    let tn = W::NAME;
    let viol = |kind: &str, what: String| {
        rep.violation(format!("WeightedTreeIndex<{tn}>|{kind}"), format!("WeightedTreeIndex<{tn}>: {what} [weights {:?}; history: {hist}]", list), json!({"type": tn, "history": hist, "weights": format!("{:?}", list), "what": what}));
    };
    let valid = match catch_unwind(AssertUnwindSafe(|| in_subject(|| tree.is_valid()))) { Ok(v) => v, Err(_) => { viol("panic", format!("is_valid panicked: {}", crate::exec::last_panic())); return; } };
    if !valid {
        let mut rng = ScriptRng::new(&[], 1);
        match catch_unwind(AssertUnwindSafe(|| in_subject(|| tree.try_sample(&mut rng)))) {
            Ok(Err(WErr::InsufficientNonZero)) => {}
            Ok(other) => viol("invalid-state", format!("try_sample on an empty / all-zero tree returned {:?} instead of InsufficientNonZero", other)),
            Err(_) => viol("panic", format!("try_sample panicked on an invalid tree: {}", crate::exec::last_panic())),
        }
        return;
    }
    let run = |words: &[u64], st: &mut TreeStats| -> Option<Result<usize, String>> {
        let mut rng = ScriptRng::new(words, 7);
        st.sample_execs += 1;
        match catch_unwind(AssertUnwindSafe(|| in_subject(|| tree.try_sample(&mut rng)))) {
            Ok(Ok(i)) => Some(Ok(i)),
            Ok(Err(e)) => Some(Err(format!("{:?}", e))),
            Err(_) => Some(Err(format!("panic: {}", crate::exec::last_panic()))),
        }
    };
    let check_idx = |i: usize| -> Option<String> {
        if i >= list.len() { return Some(format!("index {i} >= len {}", list.len())); }
        if !W::IS_FLOAT && list[i].as_i() == 0 { return Some(format!("index {i} has weight zero")); }
        None
    };
    let total_i: i128 = list.iter().map(|w| w.as_i()).sum();
    if !W::IS_FLOAT && total_i <= 0 {
        // the structure claims to be valid while the reference total is zero: C09's matter (inconsistent state)
        return;
    }
    if !W::IS_FLOAT && total_i <= 4096 {
        // every target once: find, with the environment's own function, a word that makes random_range return t
        st.sample_states_exact += 1;
        let mut counts = vec![0i128; list.len()];
        let mut w = 0u64;
        let step = (u64::MAX as u128 / total_i as u128) as u64;
        // walk the word axis: the target is a non-decreasing function of the word; one representative per target
        let mut last_t: i128 = -1;
        let mut guard = 0;
        while last_t + 1 < total_i && guard < 4 * total_i + 64 {
            guard += 1;
            // probe the target this word yields through the tree's own descent: use prefix sums on the reference
            let r = run(&[w], st);
            match r {
                Some(Ok(i)) => {
                    if let Some(b) = check_idx(i) { viol("bad-index", b); return; }
                    // which target was it? binary search is impossible without the target; count instead over an equispaced lattice below
                    let _ = i;
                }
                Some(Err(e)) => { viol("sample-error", format!("try_sample failed in a valid state: {e}")); return; }
                None => {}
            }
            last_t += 1;
            w = w.wrapping_add(step);
        }
        // exact counting identity on the finest lattice that hits every target equally often: total * 64 equispaced words
        let n = (total_i as u64) * 64;
        for k in 0..n {
            let word = (((k as u128) << 64) / n as u128) as u64 + ((1u128 << 63) / n as u128) as u64;
            match run(&[word], st) {
                Some(Ok(i)) => {
                    if let Some(b) = check_idx(i) { viol("bad-index", b); return; }
                    counts[i] += 1;
                }
                Some(Err(e)) => { viol("sample-error", format!("try_sample failed in a valid state: {e}")); return; }
                None => {}
            }
        }
        for i in 0..list.len() {
            if counts[i] != list[i].as_i() * 64 {
                viol("not-proportional", format!("index {i} is returned for {} of {} equispaced words, its weight is {:?} of total {}", counts[i], n, list[i], total_i));
                return;
            }
        }
    } else {
        // large totals / floats: boundary words (including the largest possible target) - index validity and no panic
        for &w in lam.iter() {
            match run(&[w], st) {
                Some(Ok(i)) => { if let Some(b) = check_idx(i) { viol("bad-index", b); return; } }
                Some(Err(e)) => { let k = if e.starts_with("panic") { format!("panic|{}", e.chars().skip(7).take(60).collect::<String>()) } else { "sample-error".to_string() }; viol(&k, format!("try_sample with first word {w:#018x} failed in a valid state: {e}")); return; }
                None => {}
            }
        }
        // proportionality on a lattice of 4096 equispaced words (floats and large totals): within 2/4096 + rounding
        let n = 4096u64;
        let mut counts = vec![0u64; list.len()];
        let mut ok_runs = 0u64;
        for k in 0..n {
            let word = (k << 52) | (1 << 51);
            if let Some(Ok(i)) = run(&[word], st) {
                if let Some(b) = check_idx(i) { viol("bad-index", b); return; }
                counts[i] += 1;
                ok_runs += 1;
            }
        }
        let total_f: f64 = list.iter().map(|w| w.as_f()).sum();
        // a float tree that once held a much larger total carries rounding residues of that magnitude: its weights are no
        // longer the list's weights to better than ulp(mag), so proportionality is only judged for unpolluted states
        if ok_runs == n && total_f.is_finite() && total_f > 0.0 && (!W::IS_FLOAT || mag <= total_f * 1e3) {
            for i in 0..list.len() {
                let p = list[i].as_f() / total_f;
                let q = counts[i] as f64 / n as f64;
                if (p - q).abs() > 2.5 / n as f64 + 1e-6 {
                    viol("not-proportional", format!("index {i} is returned for {:.5} of the equispaced words, its weight share is {:.5}", q, p));
                    return;
                }
            }
        }
    }
}

pub fn run(prop: &'static str, tier: Tier, seed: u64) -> i32 {
    let rep = Report::new(prop, "model_checking", if tier == Tier::Quick { "quick" } else { "thorough" }, seed);
    let (depth, cap) = if tier == Tier::Quick { (if prop == "C09" { 4 } else { 3 }, 5) } else { (if prop == "C09" { 5 } else { 4 }, 7) };
    let mut all = vec![];
    macro_rules! go { ($t:ty) => {{ let s = explore::<$t>(&rep, prop, depth, cap, true); all.push((<$t as TW>::NAME, s)); }}; }
    go!(u8);
    go!(i8);
    go!(u32);
    go!(i64);
    go!(u64);
    go!(f32);
    go!(f64);
    let states: u64 = all.iter().map(|a| a.1.states).sum();
    let trans: u64 = all.iter().map(|a| a.1.transitions).sum();
    let sexec: u64 = all.iter().map(|a| a.1.sample_execs).sum();
    rep.set("states", json!(states));
    rep.set("transitions", json!(trans));
    rep.set("traces_validated_against_impl", json!(trans + sexec));
    rep.set("evaluations", json!(trans + sexec));
    rep.set("distinct_nontrivial", json!(all.iter().map(|a| a.1.distinct_lists).sum::<u64>()));
    rep.set("rule", json!("breadth-first search over all histories of {new(ws), push(w), pop(), update(i, w)} up to the depth, every transition calls the real method on a clone of the real structure; states are deduplicated on (Debug of the tree, reference list); distinct = distinct weight lists reached"));
    rep.set("depth", json!(depth));
    rep.set("max_len", json!(cap));
    rep.set("exhaustive", json!(true));
    rep.set("exhaustive_scope", json!("all histories up to the stated depth / length over the stated weight alphabets"));
    rep.set("samples", json!(all.iter().map(|(n, s)| json!({"weight_type": n, "states": s.states, "transitions": s.transitions, "sampling_executions": s.sample_execs, "states_with_exact_target_enumeration": s.sample_states_exact, "example_history": "new([1, MAX-1]); Update(0, 2); Push(0); Pop"})).collect::<Vec<_>>()));
    rep.assume("reference model: a plain Vec of weights with i128 arithmetic for the overflow oracle");
    if prop == "C10" {
        rep.assume("integer totals <= 4096: the counting identity #{words : sample = i} = 64 * w_i over total*64 equispaced words (rand's widening-multiply range reduction maps equispaced words to equidistributed targets); larger totals and floats: 4096 equispaced words (tolerance 2.5/4096) plus the boundary word lattice");
    }
    rep.finish()
}
