//! Worker pool with a watchdog: a job step that exceeds the time limit is reported and its
//! thread abandoned (a hung thread cannot be cancelled; the process exits at the end anyway).

use std::sync::atomic::{AtomicBool, AtomicU64, AtomicUsize, Ordering::*};
use std::sync::{Arc, Mutex};
use std::time::{Duration, Instant};

/// after this many calls that did not return the sweep stops handing out jobs (reported as truncated)
pub const MAX_ABANDONED: usize = 16;
pub static TRUNCATED: AtomicBool = AtomicBool::new(false);

pub struct Slot {
    job: AtomicU64,
    start_ns: AtomicU64,
    pub aux: AtomicU64,
    pub aux2: AtomicU64,
    abandoned: AtomicBool,
    done: AtomicBool,
    t0: Instant,
}

impl Slot {
    fn new(t0: Instant) -> Self {
        Slot { job: AtomicU64::new(0), start_ns: AtomicU64::new(0), aux: AtomicU64::new(0), aux2: AtomicU64::new(0), abandoned: AtomicBool::new(false), done: AtomicBool::new(false), t0 }
    }
    /// mark the beginning of one timed step (one sampler / constructor call or a small batch)
    #[inline]
    pub fn begin(&self, aux: u64, aux2: u64) {
        self.aux.store(aux, Relaxed);
        self.aux2.store(aux2, Relaxed);
        self.start_ns.store(self.t0.elapsed().as_nanos() as u64, Release);
    }
    pub fn is_abandoned(&self) -> bool {
        self.abandoned.load(Acquire)
    }
}

#[derive(Debug, Clone)]
pub struct Timeout {
    pub job: usize,
    pub aux: u64,
    pub aux2: u64,
}

pub fn run_jobs(njobs: usize, nthreads: usize, limit: Duration, f: Arc<dyn Fn(usize, &Slot) + Send + Sync + 'static>) -> Vec<Timeout> {
    let t0 = Instant::now();
    let next = Arc::new(AtomicUsize::new(0));
    let slots: Arc<Mutex<Vec<Arc<Slot>>>> = Arc::new(Mutex::new(vec![]));
    let spawn = |slots: &Arc<Mutex<Vec<Arc<Slot>>>>| {
        let slot = Arc::new(Slot::new(t0));
        slots.lock().unwrap().push(slot.clone());
        let next = next.clone();
        let f = f.clone();
        std::thread::Builder::new()
            .stack_size(64 << 20)
            .spawn(move || {
                crate::exec::set_managed(true);
                loop {
                    let j = next.fetch_add(1, SeqCst);
                    if j >= njobs {
                        break;
                    }
                    slot.begin(0, 0);
                    slot.job.store(j as u64 + 1, Release);
                    f(j, &slot);
                    slot.job.store(0, Release);
                    if slot.is_abandoned() {
                        return;
                    }
                }
                slot.done.store(true, Release);
            })
            .expect("spawn worker");
    };
    for _ in 0..nthreads.max(1) {
        spawn(&slots);
    }
    let mut timeouts = vec![];
    loop {
        std::thread::sleep(Duration::from_millis(10));
        let now = t0.elapsed().as_nanos() as u64;
        let snapshot: Vec<Arc<Slot>> = slots.lock().unwrap().clone();
        let mut all_done = true;
        for s in &snapshot {
            if s.is_abandoned() || s.done.load(Acquire) {
                continue;
            }
            all_done = false;
            let job = s.job.load(Acquire);
            if job != 0 {
                let st = s.start_ns.load(Acquire);
                if now > st && now - st > limit.as_nanos() as u64 {
                    // re-check the job did not change meanwhile
                    if s.job.load(Acquire) == job && s.start_ns.load(Acquire) == st {
                        s.abandoned.store(true, Release);
                        timeouts.push(Timeout { job: job as usize - 1, aux: s.aux.load(Relaxed), aux2: s.aux2.load(Relaxed) });
                        if timeouts.len() >= MAX_ABANDONED {
                            // every abandoned thread keeps a core busy: stop handing out jobs, report what was met
                            next.store(njobs, SeqCst);
                            TRUNCATED.store(true, SeqCst);
                        }
                        spawn(&slots);
                    }
                }
            }
        }
        if all_done {
            break;
        }
    }
    timeouts
}

pub fn ncpu() -> usize {
    std::env::var("VERIF_THREADS").ok().and_then(|s| s.parse().ok()).unwrap_or_else(|| std::thread::available_parallelism().map(|n| n.get()).unwrap_or(4))
}
