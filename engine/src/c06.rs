//! C06: the ziggurat tables satisfy their defining equations (exhaustive over all entries) and the two
//! primitives sample N(0,1) / Exp(1) (engine T at the highest first-word resolution).

use crate::cases::Tier;
use crate::prims::explore_prim;
use crate::refs::{exp_cdf, phi};
use crate::report::{Report, hex_words};
use serde_json::json;
use special::Error as SError;

fn check_tables(rep: &Report) -> (u64, u64) {
    let mut checks = 0u64;
    let mut nontrivial = 0u64;
    for exp in [false, true] {
        let name = if exp { "ZIG_EXP" } else { "ZIG_NORM" };
        let (r, x, f) = rand_distr::verif_hooks::zig_tables(exp);
        let pdf = |t: f64| if exp { (-t).exp() } else { (-t * t / 2.0).exp() };
        let pdf_inv = |y: f64| if exp { -y.ln() } else { (-2.0 * y.ln()).sqrt() };
        let tail = if exp { (-r).exp() } else { (std::f64::consts::PI / 2.0).sqrt() * (r / std::f64::consts::SQRT_2).compl_error() };
        let v = r * pdf(r) + tail;
        let mut bad = |what: String, idx: usize| {
            rep.violation(format!("{name}|table|{}|{idx}", what.split(':').next().unwrap_or("")), format!("{name} tables: {what}"), json!({"table": name, "index": idx, "x": x.get(idx), "f": f.get(idx)}));
        };
        // end points and the tail constant
        checks += 4;
        if x[256] != 0.0 { bad("X[256] != 0: end point".into(), 256); }
        if f[256] != 1.0 { bad("F[256] != 1: end point".into(), 256); }
        if x[1] != r { bad(format!("X[1] = {} differs from the tail start R = {}: tail constant", x[1], r), 1); }
        if ((x[0] * f[1]) / v - 1.0).abs() > 1e-8 { bad(format!("base strip area X[0]*F[1] = {:e} differs from V = {:e}: area", x[0] * f[1], v), 0); }
        for i in 0..257 {
            checks += 1;
            nontrivial += 1;
            // density table equals the density at the abscissa
            if i >= 1 && (f[i] - pdf(x[i])).abs() > 1e-14 { bad(format!("F[{i}] = {:e} differs from pdf(X[{i}]) = {:e}: density", f[i], pdf(x[i])), i); }
            if i == 0 && (f[0] - pdf(x[0])).abs() > 1e-14 && (f[0] - pdf(x[0])).abs() > 1e-14 { bad(format!("F[0] = {:e} differs from pdf(X[0]) = {:e}: density", f[0], pdf(x[0])), 0); }
            if i < 256 {
                checks += 2;
                // strictly monotone
                if !(x[i] > x[i + 1]) { bad(format!("X not strictly decreasing at {i}: monotone"), i); }
                if !(f[i] < f[i + 1]) { bad(format!("F not strictly increasing at {i}: monotone"), i); }
            }
            if (1..256).contains(&i) {
                checks += 2;
                // equal areas
                let a = x[i] * (f[i + 1] - f[i]);
                if (a / v - 1.0).abs() > 1e-8 { bad(format!("layer {i} area {:e} differs from V = {:e} (relative {:e}): area", a, v, a / v - 1.0), i); }
                // generator recurrence x_{i+1} = f_inv(v / x_i + f(x_i))
                if i + 1 < 256 {
                    let xn = pdf_inv(v / x[i] + pdf(x[i]));
                    if (xn - x[i + 1]).abs() > 1e-9 * x[i + 1].max(1e-3) { bad(format!("X[{}] = {:e} differs from the recurrence value {:e}: recurrence", i + 1, x[i + 1], xn), i + 1); }
                }
            }
        }
    }
    (checks, nontrivial)
}

pub fn run(tier: Tier, seed: u64) -> i32 {
    let rep = Report::new("C06", "model_checking", if tier == Tier::Quick { "quick" } else { "thorough" }, seed);
    let (tchecks, tnon) = check_tables(&rep);
    let strata = if tier == Tier::Quick { 1 << 14 } else { 1 << 16 };
    let lat2 = if tier == Tier::Quick { 1 << 11 } else { 1 << 13 };
    let mut states = 0u64;
    let mut trans = 0u64;
    let mut execs = 0u64;
    let mut samples = vec![];
    for id in [1u8, 2u8] {
        let name = if id == 1 { "StandardNormal<f64>" } else { "Exp1<f64>" };
        let pr = explore_prim(id, strata, lat2, false);
        let k = pr.grid.k();
        let l = pr.res.cdf(k);
        let f = |t: f64| if id == 1 { phi(t) } else { exp_cdf(t, 1.0) };
        let mut worst = (0.0f64, 0.0, 0.0, 0.0);
        let tol_at = |i: usize| pr.res.err[i].min(pr.res.err_hi[i]) + pr.res.resid + pr.res.bad + 2e-9 + 1e-6 * f(pr.grid.cps[i]).min(1.0 - f(pr.grid.cps[i]));
        for i in 0..k {
            let t = pr.grid.cps[i];
            let dev = (l[i] - f(t)).abs();
            let tol = tol_at(i);
            if dev / tol > worst.0 { worst = (dev / tol, t, dev, tol); }
        }
        if worst.0 > 1.0 {
            rep.violation(format!("{name}|law"), format!("{name}: explored law deviates from the exact one by {:.3e} at x = {:e}; tolerance {:.3e} (ratio {:.2})", worst.2, worst.1, worst.3, worst.0), json!({"primitive": name, "checkpoint": worst.1, "deviation": worst.2, "tolerance": worst.3}));
        }
        let mut sym_worst = 0.0f64;
        if id == 1 {
            // sign symmetry L(-t) = 1 - L(t): the grid is symmetric (quantiles q and 1-q)
            for i in 0..k {
                let t = pr.grid.cps[i];
                if t <= 0.0 { continue; }
                if let Some(j) = (0..k).find(|&j| (pr.grid.cps[j] + t).abs() < 1e-9 * t.max(1.0)) {
                    let d = (l[j] - (1.0 - l[i])).abs();
                    let tol = tol_at(i) + tol_at(j);
                    sym_worst = sym_worst.max(d / tol);
                    if d > tol {
                        rep.violation(format!("{name}|symmetry"), format!("{name}: L(-t) = {:.6e} but 1 - L(t) = {:.6e} at t = {t:e} (tolerance {:.2e})", l[j], 1.0 - l[i], tol), json!({"t": t}));
                    }
                }
            }
        }
        for b in pr.bad.iter().take(4) {
            rep.violation(format!("{name}|bad-leaf|{}", b.what.chars().take(40).collect::<String>()), format!("{name}: an explored execution returned outside the support or panicked: {} (value {:e})", b.what, b.value), json!({"script_words": hex_words(&b.script), "what": b.what}));
        }
        states += pr.cnt.nodes;
        trans += pr.cnt.edges;
        execs += pr.cnt.execs;
        samples.push(json!({"primitive": name, "first_word_alphabet": format!("256 layer bytes x {} strata of the 52 u-bits + dyadic ends", strata), "executions": pr.cnt.execs, "nodes": pr.cnt.nodes, "leaves": pr.cnt.leaves, "wedge_and_tail_restarts_closed": pr.cnt.restarts,
            "boundaries_bisected": pr.cnt.boundaries, "expected_words": pr.res.words, "resid": pr.res.resid, "worst_dev_over_tol": worst.0, "worst_dev": worst.2, "worst_tol": worst.3, "worst_at": worst.1, "symmetry_worst_over_tol": sym_worst,
            "tolerance_at_tail_1e-6": tol_at(0), "checkpoints": k}));
    }
    rep.set("states", json!(states + 2 * 257));
    rep.set("transitions", json!(trans));
    rep.set("traces_validated_against_impl", json!(execs));
    rep.set("evaluations", json!(execs + tchecks));
    rep.set("distinct_nontrivial", json!(tnon));
    rep.set("table_equations_checked", json!(tchecks));
    rep.set("samples", json!(samples));
    rep.set("exhaustive", json!(true));
    rep.set("exhaustive_scope", json!("all 4 x 257 table entries and both tail constants; the law part is an exhaustive exploration over the stated finite first-word alphabet, not over all 2^64 words"));
    rep.assume("table equations evaluated in f64 with libm exp/ln/erfc (1e-14 absolute on densities, 1e-8 relative on areas)");
    rep.assume("law: see C01 (same engine); tolerance from the explored alphabets only");
    rep.finish()
}
