//! Parameter envelope E (DESIGN.md §4) as a registry of cases over the real samplers.

use crate::refs::*;
use crate::sampler::*;
use rand_distr::multi::Dirichlet;
use rand_distr::*;
use std::sync::Arc;

pub type FnR = Arc<dyn Fn(f64) -> f64 + Send + Sync>;

#[derive(Clone)]
pub enum Law {
    None,
    /// continuous law: cdf and support bounds (for quantile search)
    Cont { cdf: FnR, lo: f64, hi: f64 },
    /// integer-valued law: P(X <= k) and support bounds
    Disc { cdf: FnR, lo: f64, hi: f64 },
}

#[derive(Clone)]
pub struct Case {
    pub family: &'static str,
    pub fty: &'static str,
    pub label: String,
    pub params: Vec<f64>,
    pub build: Arc<dyn Fn() -> Option<Box<dyn Sampler>> + Send + Sync>,
    pub law: Law,
    /// part of the law envelope (C01/C02/C11/C12); otherwise a C03/C05-only extreme
    pub in_law: bool,
    /// pdf for the C13 resolution bound (single-draw families)
    pub pdf: Option<FnR>,
    /// note on what the law check of this case does not decide
    pub law_note: &'static str,
    /// absolute granularity of the output (components computed by subtraction from 1), 0 if none
    pub abs_gran: f64,
}

#[derive(Clone, Copy, PartialEq, Eq, Debug)]
pub enum Tier {
    Quick,
    Thorough,
}

fn fin_f64(x: f64) -> Option<&'static str> {
    if x.is_nan() {
        Some("NaN")
    } else if x.is_infinite() {
        Some("infinite")
    } else {
        None
    }
}

pub fn ulp_of(x: f64, is32: bool) -> f64 {
    if is32 {
        let a = (x as f32).abs();
        if a == 0.0 { return f32::MIN_POSITIVE as f64; }
        (f32::from_bits(a.to_bits() + 1) - a) as f64
    } else {
        let a = x.abs();
        if a == 0.0 { return f64::MIN_POSITIVE; }
        f64::from_bits(a.to_bits() + 1) - a
    }
}

fn lbl(family: &str, fty: &str, ps: &[(&str, f64)]) -> String {
    let mut s = format!("{family}<{fty}>(");
    for (i, (n, v)) in ps.iter().enumerate() {
        if i > 0 {
            s.push(',');
        }
        s.push_str(&format!("{n}={v:e}"));
    }
    s.push(')');
    s
}

pub struct Reg {
    pub v: Vec<Case>,
}

impl Reg {
    #[allow(clippy::too_many_arguments)]
    fn add<D, T>(
        &mut self,
        family: &'static str,
        fty: &'static str,
        ps: &[(&str, f64)],
        ctor: impl Fn() -> Option<D> + Send + Sync + 'static,
        chk: impl Fn(T) -> Option<&'static str> + Send + Sync + 'static,
        law: Law,
        in_law: bool,
    ) -> &mut Case
    where
        D: Distribution<T> + Clone + PartialEq + std::fmt::Debug + Send + Sync + 'static,
        T: Out,
    {
        let chk: Chk<T> = Arc::new(chk);
        let lab = lbl(family, fty, ps);
        let build = Arc::new(move || {
            crate::exec::ctor_guard(&lab, &ctor).map(|d| Box::new(Sc::new(d, chk.clone())) as Box<dyn Sampler>)
        });
        self.v.push(Case {
            family,
            fty,
            label: lbl(family, fty, ps),
            params: ps.iter().map(|p| p.1).collect(),
            build,
            law,
            in_law,
            pdf: None,
            law_note: "",
            abs_gran: 0.0,
        });
        self.v.last_mut().unwrap()
    }
    #[allow(clippy::too_many_arguments)]
    fn addv<D, T>(
        &mut self,
        family: &'static str,
        fty: &'static str,
        label: String,
        params: Vec<f64>,
        ctor: impl Fn() -> Option<D> + Send + Sync + 'static,
        proj: impl Fn(&[f64]) -> f64 + Send + Sync + 'static,
        chk: impl Fn(&[f64]) -> Option<&'static str> + Send + Sync + 'static,
        law: Law,
        in_law: bool,
    ) -> &mut Case
    where
        D: Distribution<T> + Clone + PartialEq + std::fmt::Debug + Send + Sync + 'static,
        T: VecOut,
    {
        let proj: Proj = Arc::new(proj);
        let chk: VChk = Arc::new(chk);
        let lab = label.clone();
        let build = Arc::new(move || {
            crate::exec::ctor_guard(&lab, &ctor).map(|d| Box::new(Vc::new(d, proj.clone(), chk.clone())) as Box<dyn Sampler>)
        });
        self.v.push(Case { family, fty, label, params, build, law, in_law, pdf: None, law_note: "", abs_gran: 0.0 });
        self.v.last_mut().unwrap()
    }
}

fn cont(cdf: impl Fn(f64) -> f64 + Send + Sync + 'static, lo: f64, hi: f64) -> Law {
    Law::Cont { cdf: Arc::new(cdf), lo, hi }
}
fn disc(cdf: impl Fn(f64) -> f64 + Send + Sync + 'static, lo: f64, hi: f64) -> Law {
    Law::Disc { cdf: Arc::new(cdf), lo, hi }
}

const INF: f64 = f64::INFINITY;

macro_rules! float_cases {
    ($fname:ident, $F:ty, $name:expr, $is32:expr) => {
        pub fn $fname(r: &mut Reg, tier: Tier, seed: u64) {
            type F = $F;
            const N: &str = $name;
            const IS32: bool = $is32;
            #[allow(non_snake_case)]
            fn R(x: f64) -> f64 {
                (x as F) as f64
            }
            let fin = |x: F| fin_f64(x as f64);
            let nonneg = |x: F| {
                if x.is_nan() { Some("NaN") } else if x.is_infinite() { Some("infinite") } else if x < 0.0 { Some("negative") } else { None }
            };

            // ---- primitives
            r.add("StandardNormal", N, &[], || Some(Unit(StandardNormal)), fin, cont(|x| phi(x), -INF, INF), true);
            r.add("Exp1", N, &[], || Some(Unit(Exp1)), nonneg, cont(|x| exp_cdf(x, 1.0), 0.0, INF), true);

            // ---- Normal
            for &mu in &[-1e6f64, -3.0, 0.0, 2.5, 1e6] {
                for &sd in &[-2.0f64, 0.0, 1.0 / 1024.0, 1.0, 7.5, 1024.0] {
                    if IS32 && mu.abs() >= 1e6 && sd.abs() < 1.0 { continue; } // sd below f32 resolution of mu: law degenerates to a lattice
                    let (m, s) = (R(mu), R(sd));
                    r.add("Normal", N, &[("mean", mu), ("std_dev", sd)], move || Normal::<F>::new(mu as F, sd as F).ok(), fin,
                        cont(move |x| normal_cdf(x, m, s), -INF, INF), true);
                }
            }
            // ---- LogNormal
            for &mu in &[-2.0, 0.0, 1.0, 5.0] {
                for &sg in &[0.1, 0.5, 1.0, 2.0] {
                    let (m, s) = (R(mu), R(sg));
                    r.add("LogNormal", N, &[("mu", mu), ("sigma", sg)], move || LogNormal::<F>::new(mu as F, sg as F).ok(), nonneg,
                        cont(move |x| lognormal_cdf(x, m, s), 0.0, INF), true);
                }
            }
            for &mean in &[0.5, 3.0, 100.0] {
                for &cv in &[0.0, 0.5, 1.0, 4.0] {
                    let (mean_r, cv_r) = (R(mean), R(cv));
                    let a = 1.0 + cv_r * cv_r;
                    let m = 0.5 * (mean_r * mean_r / a).ln();
                    let s = a.ln().sqrt();
                    r.add("LogNormalMeanCv", N, &[("mean", mean), ("cv", cv)], move || LogNormal::<F>::from_mean_cv(mean as F, cv as F).ok(), nonneg,
                        cont(move |x| lognormal_cdf(x, m, s), 0.0, INF), true);
                }
            }
            // ---- Exp
            for &l in &[1.0 / 1024.0, 0.5, 1.0, 3.0, 1024.0] {
                let lr = R(l);
                r.add("Exp", N, &[("lambda", l)], move || Exp::<F>::new(l as F).ok(), nonneg, cont(move |x| exp_cdf(x, lr), 0.0, INF), true);
            }
            r.add("Exp", N, &[("lambda", 0.0)], || Exp::<F>::new(0.0).ok(),
                |x: F| if x == F::INFINITY { None } else { Some("Exp(0) must be +inf") }, Law::None, false);
            // ---- Gamma
            let mut shapes = vec![0.3, 0.999, 1.0, 1.001, 1.5, 2.5, 10.0, 100.0, 1e4];
            if !IS32 { shapes.insert(0, 0.05); }
            for &k in &shapes {
                for &th in &[1.0, 0.01, 50.0] {
                    let (kr, tr) = (R(k), R(th));
                    r.add("Gamma", N, &[("shape", k), ("scale", th)], move || Gamma::<F>::new(k as F, th as F).ok(), nonneg,
                        cont(move |x| gamma_cdf(x, kr, tr), 0.0, INF), true);
                }
            }
            // C03/C05-only extremes
            for &(k, th) in &[(1e-3, 1.0), (0.005, 1e10), (1e6, 1.0), (1e-3, 1e-3), (5.0, 1e30), (1.0, 1e-30)] {
                r.add("Gamma", N, &[("shape", k), ("scale", th)], move || Gamma::<F>::new(k as F, th as F).ok(), nonneg, Law::None, false);
            }
            // ---- ChiSquared
            for &k in &[0.5, 1.0, 1.5, 2.0, 2.5, 3.0, 10.0, 100.0] {
                let kr = R(k);
                r.add("ChiSquared", N, &[("k", k)], move || ChiSquared::<F>::new(k as F).ok(), nonneg, cont(move |x| chi2_cdf(x, kr), 0.0, INF), true);
            }
            // ---- StudentT
            for &nu in &[0.5, 1.0, 1.5, 2.0, 2.5, 5.0, 30.0, 1e3] {
                let nr = R(nu);
                // heavy tails: |t| can exceed f32::MAX with non-negligible probability for nu = 0.5 in f32; documented overflow region
                let chk = move |x: F| if x.is_nan() { Some("NaN") } else if x.is_infinite() { Some("infinite") } else { None };
                r.add("StudentT", N, &[("nu", nu)], move || StudentT::<F>::new(nu as F).ok(), chk, cont(move |x| student_t_cdf(x, nr), -INF, INF), true);
            }
            // ---- FisherF
            for &(m, n) in &[(1.0, 1.0), (2.0, 32.0), (0.7, 3.0), (5.0, 2.0), (2.0, 2.0), (10.0, 10.0), (1.0, 30.0), (100.0, 100.0)] {
                let (mr, nr) = (R(m), R(n));
                let chk = move |x: F| if x.is_nan() { Some("NaN") } else if x < 0.0 { Some("negative") } else if x.is_infinite() { Some("infinite") } else { None };
                r.add("FisherF", N, &[("m", m), ("n", n)], move || FisherF::<F>::new(m as F, n as F).ok(), chk,
                    cont(move |x| fisher_f_cdf(x, mr, nr), 0.0, INF), true);
            }
            // ---- Beta
            let unit = |x: F| if x.is_nan() { Some("NaN") } else if !(0.0..=1.0).contains(&x) { Some("outside [0,1]") } else { None };
            let mut betas = vec![(0.5, 0.5), (1.0, 1.0), (1.0, 2.0), (2.0, 1.0), (0.2, 3.0), (3.0, 0.2), (0.9999, 5.0), (1.0001, 1.0001), (1.0001, 0.9999),
                (2.0, 3.0), (3.0, 2.0), (5.0, 5.0), (50.0, 80.0), (0.1, 0.1), (1.0, 1e3)];
            if IS32 { betas.retain(|&(a, b)| a >= 0.1 && b >= 0.1); }
            for &(a, b) in &betas {
                let (ar, br) = (R(a), R(b));
                r.add("Beta", N, &[("alpha", a), ("beta", b)], move || Beta::<F>::new(a as F, b as F).ok(), unit, cont(move |x| beta_cdf(x, ar, br), 0.0, 1.0), true);
            }
            for &(a, b) in &[(1e-3, 1e-3), (1e-3, 1e3), (1e3, 1e-3), (1e-2, 0.5), (1e5, 1e5)] {
                r.add("Beta", N, &[("alpha", a), ("beta", b)], move || Beta::<F>::new(a as F, b as F).ok(), unit, Law::None, false);
            }
            // ---- Pert
            for &(mn, mx) in &[(0.0, 1.0), (-1.0, 1.0), (10.0, 100.0)] {
                for &mf in &[0.0, 0.25, 0.5, 0.75, 1.0] {
                    for &sh in &[0.0, 1.0, 4.0, 20.0] {
                        let mode = mn + mf * (mx - mn);
                        let (mnr, mxr, mor, shr) = (R(mn), R(mx), R(mode), R(sh));
                        let range = mxr - mnr;
                        let v = 1.0 + shr * (mor - mnr) / range;
                        let w = 1.0 + shr * (mxr - mor) / range;
                        let tol = 4.0 * ulp_of(mxr.abs().max(mnr.abs()), IS32);
                        let chk = move |x: F| { let x = x as f64; if x.is_nan() { Some("NaN") } else if x < mnr - tol || x > mxr + tol { Some("outside [min,max]") } else { None } };
                        r.add("Pert", N, &[("min", mn), ("max", mx), ("mode", mode), ("shape", sh)],
                            move || Pert::<F>::new(mn as F, mx as F).with_shape(sh as F).with_mode(mode as F).ok(), chk,
                            cont(move |x| beta_cdf(((x - mnr) / range).clamp(0.0, 1.0), v, w), mnr, mxr), true);
                    }
                }
            }
            // with_mean: mean = (min + shape*mode + max)/(shape+2)
            for &(mn, mx, mode, sh) in &[(0.0, 1.0, 0.25, 4.0), (-1.0, 1.0, 0.5, 1.0), (10.0, 100.0, 32.5, 20.0)] {
                let mean = (mn + sh * mode + mx) / (sh + 2.0);
                let (mnr, mxr, shr, meanr) = (R(mn), R(mx), R(sh), R(mean));
                let range = mxr - mnr;
                let mor = ((shr + 2.0) * meanr - mnr - mxr) / shr;
                let v = 1.0 + shr * (mor - mnr) / range;
                let w = 1.0 + shr * (mxr - mor) / range;
                let tol = 4.0 * ulp_of(mxr.abs().max(mnr.abs()), IS32);
                let chk = move |x: F| { let x = x as f64; if x.is_nan() { Some("NaN") } else if x < mnr - tol || x > mxr + tol { Some("outside [min,max]") } else { None } };
                r.add("PertMean", N, &[("min", mn), ("max", mx), ("mean", mean), ("shape", sh)],
                    move || Pert::<F>::new(mn as F, mx as F).with_shape(sh as F).with_mean(mean as F).ok(), chk,
                    cont(move |x| beta_cdf(((x - mnr) / range).clamp(0.0, 1.0), v, w), mnr, mxr), true);
            }
            // ---- Triangular
            let mut tri = vec![];
            for &(mn, mx) in &[(0.0, 1.0), (-5.0, 3.0), (1e6, 1e6 + 1.0)] {
                for &mf in &[0.0, 0.3, 0.5, 1.0] {
                    tri.push((mn, mx, mn + mf * (mx - mn), !(IS32 && mn >= 1e6)));
                }
            }
            tri.push((2.0, 2.0, 2.0, true));
            for &(mn, mx, mode, inlaw) in &tri {
                let (mnr, mxr, mor) = (R(mn), R(mx), R(mode));
                let tol = 4.0 * ulp_of(mxr.abs().max(mnr.abs()), IS32);
                let chk = move |x: F| { let x = x as f64; if x.is_nan() { Some("NaN") } else if x < mnr - tol || x > mxr + tol { Some("outside [min,max]") } else { None } };
                let c = r.add("Triangular", N, &[("min", mn), ("max", mx), ("mode", mode)], move || Triangular::<F>::new(mn as F, mx as F, mode as F).ok(), chk,
                    cont(move |x| triangular_cdf(x, mnr, mxr, mor), mnr, mxr), inlaw);
                if mxr > mnr {
                    c.pdf = Some(Arc::new(move |x: f64| {
                        if x < mnr || x > mxr { 0.0 } else if x < mor { 2.0 * (x - mnr) / ((mxr - mnr) * (mor - mnr)) }
                        else if x == mor { 2.0 / (mxr - mnr) } else { 2.0 * (mxr - x) / ((mxr - mnr) * (mxr - mor)) }
                    }));
                }
            }
            // ---- Cauchy
            for &(x0, g) in &[(0.0, 1.0), (10.0, 5.0), (-3.0, 0.01)] {
                let (xr, gr) = (R(x0), R(g));
                // tan(pi/2) in float arithmetic is huge but finite; f32 can overflow only through scale
                let c = r.add("Cauchy", N, &[("median", x0), ("scale", g)], move || Cauchy::<F>::new(x0 as F, g as F).ok(), fin,
                    cont(move |x| cauchy_cdf(x, xr, gr), -INF, INF), true);
                c.pdf = Some(Arc::new(move |x: f64| 1.0 / (std::f64::consts::PI * gr * (1.0 + ((x - xr) / gr).powi(2)))));
            }
            // ---- Pareto
            for &(xm, a) in &[(1.0, 2.0), (1.0, 0.5), (3.0, 10.0), (0.01, 1.0)] {
                let (xr, ar) = (R(xm), R(a));
                let chk = move |x: F| { let x = x as f64; if x.is_nan() { Some("NaN") } else if x.is_infinite() { Some("infinite") } else if x < xr { Some("below scale") } else { None } };
                let c = r.add("Pareto", N, &[("scale", xm), ("shape", a)], move || Pareto::<F>::new(xm as F, a as F).ok(), chk,
                    cont(move |x| pareto_cdf(x, xr, ar), xr, INF), !(IS32 && a < 1.0));
                c.pdf = Some(Arc::new(move |x: f64| if x < xr { 0.0 } else { ar * xr.powf(ar) / x.powf(ar + 1.0) }));
            }
            // ---- Weibull
            for &(l, k) in &[(1.0, 1.0), (1.0, 10.0), (2.0, 0.5), (1.0, 0.1)] {
                let (lr, kr) = (R(l), R(k));
                let c = r.add("Weibull", N, &[("scale", l), ("shape", k)], move || Weibull::<F>::new(l as F, k as F).ok(), nonneg,
                    cont(move |x| weibull_cdf(x, lr, kr), 0.0, INF), !(IS32 && k < 0.2));
                c.pdf = Some(Arc::new(move |x: f64| if x <= 0.0 { 0.0 } else { kr / lr * (x / lr).powf(kr - 1.0) * (-(x / lr).powf(kr)).exp() }));
            }
            // ---- Gumbel
            for &(mu, b) in &[(0.0, 1.0), (5.0, 0.1), (-2.0, 30.0)] {
                let (mr, br) = (R(mu), R(b));
                let c = r.add("Gumbel", N, &[("location", mu), ("scale", b)], move || Gumbel::<F>::new(mu as F, b as F).ok(), fin,
                    cont(move |x| gumbel_cdf(x, mr, br), -INF, INF), true);
                c.pdf = Some(Arc::new(move |x: f64| { let z = (x - mr) / br; (-(z + (-z).exp())).exp() / br }));
            }
            // ---- Frechet
            for &(mu, s, a) in &[(0.0, 1.0, 1.0), (0.0, 1.0, 0.5), (3.0, 2.0, 10.0), (-1.0, 0.1, 2.0)] {
                let (mr, sr, ar) = (R(mu), R(s), R(a));
                let chk = move |x: F| { let x = x as f64; if x.is_nan() { Some("NaN") } else if x.is_infinite() { Some("infinite") } else if x < mr { Some("below location") } else { None } };
                let c = r.add("Frechet", N, &[("location", mu), ("scale", s), ("shape", a)], move || Frechet::<F>::new(mu as F, s as F, a as F).ok(), chk,
                    cont(move |x| frechet_cdf(x, mr, sr, ar), mr, INF), !(IS32 && a < 1.0));
                c.pdf = Some(Arc::new(move |x: f64| if x <= mr { 0.0 } else { let z = (x - mr) / sr; ar / sr * z.powf(-1.0 - ar) * (-z.powf(-ar)).exp() }));
            }
            // ---- SkewNormal
            for &(xi, om) in &[(0.0, 1.0), (2.0, 3.0)] {
                for &al in &[0.0, 1.0, -1.0, 1e-3, -1e-3, 0.5, -0.5, 5.0, -5.0, 100.0, -100.0] {
                    let (xr, or, ar) = (R(xi), R(om), R(al));
                    r.add("SkewNormal", N, &[("location", xi), ("scale", om), ("shape", al)], move || SkewNormal::<F>::new(xi as F, om as F, al as F).ok(), fin,
                        cont(move |x| skew_normal_cdf(x, xr, or, ar), -INF, INF), true);
                }
            }
            // ---- InverseGaussian
            // (the last two: concentrated, nearly normal regime shape / mean >> 1)
            for &(mu, l) in &[(1.0, 1.0), (1.0, 0.1), (1.0, 10.0), (0.1, 3.0), (20.0, 2.0), (1.0, 1000.0), (2.0, 8000.0)] {
                let (mr, lr) = (R(mu), R(l));
                r.add("InverseGaussian", N, &[("mean", mu), ("shape", l)], move || InverseGaussian::<F>::new(mu as F, l as F).ok(), nonneg,
                    cont(move |x| inv_gauss_cdf(x, mr, lr), 0.0, INF), true);
            }
            // ---- NIG
            for &(a, b) in &[(1.0, 0.0), (2.0, 1.0), (2.0, -1.0), (1.0, 0.9), (10.0, 3.0), (0.5, -0.45)] {
                let (ar, br) = (R(a), R(b));
                r.add("NormalInverseGaussian", N, &[("alpha", a), ("beta", b)], move || NormalInverseGaussian::<F>::new(a as F, b as F).ok(), fin,
                    cont(move |x| nig_cdf(x, ar, br), -INF, INF), true);
            }
            // ---- Poisson<F>
            let mut lams = vec![1e-3, 0.1, 0.5, 1.0, 2.0, 5.0, 11.99, 12.0, 12.01, 20.0, 100.0, 1e4];
            if !IS32 { lams.extend_from_slice(&[1e8, 1e15]); } else { lams.push(1e6); }
            for &l in &lams {
                let lr = R(l);
                let chk = |x: F| if x.is_nan() { Some("NaN") } else if x < 0.0 { Some("negative") } else if x.is_infinite() { Some("infinite") } else if x.fract() != 0.0 { Some("not an integer") } else { None };
                let pref = Arc::new(std::sync::OnceLock::<DiscRef>::new());
                let c = r.add("Poisson", N, &[("lambda", l)], move || Poisson::<F>::new(l as F).ok(), chk, disc(move |k| pref.get_or_init(|| poisson_ref(lr)).cdf(k), 0.0, INF), true);
                if l < 12.0 { c.law_note = "Knuth product method: law not decided (no restart structure), support/termination only"; }
            }
            if !IS32 {
                for &l in &[1e16, 1e17, 1e18, 1e19, 1.844e19] {
                    r.add("Poisson", N, &[("lambda", l)], move || Poisson::<F>::new(l as F).ok(),
                        |x: F| if x.is_nan() { Some("NaN") } else if x < 0.0 { Some("negative") } else if x.is_infinite() { Some("infinite") } else { None }, Law::None, false);
                }
            }
            // ---- Zipf<F>
            let ns: &[f64] = if IS32 { &[1.0, 2.0, 10.0, 1000.0, 1e6] } else { &[1.0, 2.0, 10.0, 1000.0, 1e6, 1e15] };
            for &n in ns {
                // (0.998 and 1.002: both sides of the s = 1 switch at a small distance)
                for &s in &[0.0, 0.5, 0.998, 1.0, 1.002, 1.5, 2.0, 5.0, INF] {
                    let (nr, sr) = (R(n), R(s));
                    let chk = move |x: F| { let x = x as f64; if x.is_nan() { Some("NaN") } else if x < 1.0 { Some("below 1") } else if x > nr { Some("above n") } else if x.fract() != 0.0 { Some("not an integer") } else { None } };
                    r.add("Zipf", N, &[("n", n), ("s", s)], move || Zipf::<F>::new(n as F, s as F).ok(), chk, disc(move |k| zipf_cdf(k, nr, sr), 1.0, nr), true);
                }
            }
            // ---- Zeta<F>
            for &s in &[1.05, 1.1, 1.5, 2.0, 3.0, 10.0] {
                let sr = R(s);
                // documented: proposals can overflow to +inf when s is close to 1
                let chk = move |x: F| { if x.is_nan() { Some("NaN") } else if x < 1.0 { Some("below 1") } else if x.is_infinite() { if s < 1.5 { None } else { Some("infinite") } } else if x.fract() != 0.0 { Some("not an integer") } else { None } };
                // f32: for s < 1.5 the proposal u^(-1/(s-1)) overflows with probability > 1e-6 (documented +inf result)
                r.add("Zeta", N, &[("s", s)], move || Zeta::<F>::new(s as F).ok(), chk, disc(move |k| zeta_cdf(k, sr), 1.0, INF), !(IS32 && s < 1.5));
            }
            if !IS32 {
                r.add("Zeta", N, &[("s", 1.0 + 1e-15)], || Zeta::<F>::new((1.0 + 1e-15) as F).ok(),
                    |x: F| if x.is_nan() { Some("NaN") } else if x < 1.0 { Some("below 1") } else { None }, Law::None, false);
            }
            // ---- random interior points of E (log-uniform, from VERIF_SEED): explored exactly like grid points
            {
                let nr = if tier == Tier::Quick { 2 } else { 8 };
                let mut sm = crate::rng::SplitMix::seeded(seed.wrapping_mul(0x9E37).wrapping_add(if IS32 { 32 } else { 64 }));
                let mut lu = |lo: f64, hi: f64| -> f64 { let u = (sm.next() >> 11) as f64 / (1u64 << 53) as f64; let x = (lo.ln() + u * (hi.ln() - lo.ln())).exp(); ((x as F) as f64 * 1e6).round() / 1e6 };
                for _ in 0..nr {
                    let (k, th) = (lu(0.3, 1e3), lu(0.1, 10.0));
                    let (kr, tr) = (R(k), R(th));
                    r.add("Gamma", N, &[("shape", k), ("scale", th)], move || Gamma::<F>::new(k as F, th as F).ok(), nonneg, cont(move |x| gamma_cdf(x, kr, tr), 0.0, INF), true);
                    let (a, b) = (lu(0.25, 50.0), lu(0.25, 50.0));
                    let (ar, br) = (R(a), R(b));
                    r.add("Beta", N, &[("alpha", a), ("beta", b)], move || Beta::<F>::new(a as F, b as F).ok(), unit, cont(move |x| beta_cdf(x, ar, br), 0.0, 1.0), true);
                    let nu = lu(2.0, 200.0);
                    let nr_ = R(nu);
                    r.add("ChiSquared", N, &[("k", nu)], move || ChiSquared::<F>::new(nu as F).ok(), nonneg, cont(move |x| chi2_cdf(x, nr_), 0.0, INF), true);
                    let (mu, l) = (lu(0.1, 20.0), lu(0.1, 10.0));
                    let (mr, lr) = (R(mu), R(l));
                    r.add("InverseGaussian", N, &[("mean", mu), ("shape", l)], move || InverseGaussian::<F>::new(mu as F, l as F).ok(), nonneg, cont(move |x| inv_gauss_cdf(x, mr, lr), 0.0, INF), true);
                    let (sc, sh) = (lu(0.1, 10.0), lu(0.3, 8.0));
                    let (scr, shr) = (R(sc), R(sh));
                    let cw = r.add("Weibull", N, &[("scale", sc), ("shape", sh)], move || Weibull::<F>::new(sc as F, sh as F).ok(), nonneg, cont(move |x| weibull_cdf(x, scr, shr), 0.0, INF), true);
                    cw.pdf = Some(Arc::new(move |x: f64| if x <= 0.0 { 0.0 } else { shr / scr * (x / scr).powf(shr - 1.0) * (-(x / scr).powf(shr)).exp() }));
                    let lam = lu(12.0, 1e5);
                    let lr2 = R(lam);
                    let chkp = |x: F| if x.is_nan() { Some("NaN") } else if x < 0.0 { Some("negative") } else if x.is_infinite() { Some("infinite") } else if x.fract() != 0.0 { Some("not an integer") } else { None };
                    let pref = Arc::new(std::sync::OnceLock::<DiscRef>::new());
                    r.add("Poisson", N, &[("lambda", lam)], move || Poisson::<F>::new(lam as F).ok(), chkp, disc(move |k| pref.get_or_init(|| poisson_ref(lr2)).cdf(k), 0.0, INF), true);
                    let (zn, zs) = (lu(2.0, 1e5).round(), lu(0.2, 4.0));
                    // f32 within 0.02 of the s = 1 switch is a recorded finding (power 1/(1-s) amplifies the rounding):
                    // random points stay clear of it, the fixed grid holds 0.998 and 1.002
                    let zs = if IS32 && (zs - 1.0).abs() < 0.02 { 1.05 } else { zs };
                    let (znr, zsr) = (R(zn), R(zs));
                    let chkz = move |x: F| { let x = x as f64; if x.is_nan() { Some("NaN") } else if x < 1.0 { Some("below 1") } else if x > znr { Some("above n") } else if x.fract() != 0.0 { Some("not an integer") } else { None } };
                    r.add("Zipf", N, &[("n", zn), ("s", zs)], move || Zipf::<F>::new(zn as F, zs as F).ok(), chkz, disc(move |k| zipf_cdf(k, znr, zsr), 1.0, znr), true);
                }
            }
            // ---- extremes of the accepted parameter ranges (termination / word consumption only: the support is not judged,
            //      overflow and underflow of the result are expected here)
            {
                let any = |_x: F| None;
                let (tiny, huge, mx): (f64, f64, f64) = if IS32 { (1e-30, 1e30, f32::MAX as f64) } else { (1e-300, 1e300, f64::MAX) };
                for &v in &[tiny, huge, mx, 1e-5, 1e5] {
                    r.add("Gamma", N, &[("shape", v), ("scale", 1.0)], move || Gamma::<F>::new(v as F, 1.0).ok(), any, Law::None, false);
                    r.add("Gamma", N, &[("shape", 0.5), ("scale", v)], move || Gamma::<F>::new(0.5, v as F).ok(), any, Law::None, false);
                    r.add("Beta", N, &[("alpha", v), ("beta", 1.0)], move || Beta::<F>::new(v as F, 1.0).ok(), any, Law::None, false);
                    r.add("Beta", N, &[("alpha", v), ("beta", v)], move || Beta::<F>::new(v as F, v as F).ok(), any, Law::None, false);
                    r.add("Beta", N, &[("alpha", 2.0), ("beta", v)], move || Beta::<F>::new(2.0, v as F).ok(), any, Law::None, false);
                    r.add("ChiSquared", N, &[("k", v)], move || ChiSquared::<F>::new(v as F).ok(), any, Law::None, false);
                    r.add("StudentT", N, &[("nu", v)], move || StudentT::<F>::new(v as F).ok(), any, Law::None, false);
                    r.add("FisherF", N, &[("m", v), ("n", 3.0)], move || FisherF::<F>::new(v as F, 3.0).ok(), any, Law::None, false);
                    r.add("Exp", N, &[("lambda", v)], move || Exp::<F>::new(v as F).ok(), any, Law::None, false);
                    r.add("Weibull", N, &[("scale", 1.0), ("shape", v)], move || Weibull::<F>::new(1.0, v as F).ok(), any, Law::None, false);
                    r.add("Pareto", N, &[("scale", 1.0), ("shape", v)], move || Pareto::<F>::new(1.0, v as F).ok(), any, Law::None, false);
                    r.add("Frechet", N, &[("location", 0.0), ("scale", 1.0), ("shape", v)], move || Frechet::<F>::new(0.0, 1.0, v as F).ok(), any, Law::None, false);
                    r.add("InverseGaussian", N, &[("mean", v), ("shape", 1.0)], move || InverseGaussian::<F>::new(v as F, 1.0).ok(), any, Law::None, false);
                    r.add("InverseGaussian", N, &[("mean", 1.0), ("shape", v)], move || InverseGaussian::<F>::new(1.0, v as F).ok(), any, Law::None, false);
                    r.add("SkewNormal", N, &[("location", 0.0), ("scale", 1.0), ("shape", v)], move || SkewNormal::<F>::new(0.0, 1.0, v as F).ok(), any, Law::None, false);
                    r.add("NormalInverseGaussian", N, &[("alpha", v), ("beta", 0.0)], move || NormalInverseGaussian::<F>::new(v as F, 0.0).ok(), any, Law::None, false);
                    r.add("Zeta", N, &[("s", 1.0 + v)], move || Zeta::<F>::new((1.0 + v) as F).ok(), any, Law::None, false);
                    r.add("Zipf", N, &[("n", v.max(1.0)), ("s", 1.5)], move || Zipf::<F>::new(v.max(1.0) as F, 1.5).ok(), any, Law::None, false);
                    r.add("Zipf", N, &[("n", 100.0), ("s", v)], move || Zipf::<F>::new(100.0, v as F).ok(), any, Law::None, false);
                    r.add("Pert", N, &[("min", 0.0), ("max", 1.0), ("mode", 0.5), ("shape", v)], move || Pert::<F>::new(0.0, 1.0).with_shape(v as F).with_mode(0.5).ok(), any, Law::None, false);
                }
                for &s in &[130.0, 200.0, 1100.0, 1e6] {
                    r.add("Zeta", N, &[("s", s)], move || Zeta::<F>::new(s as F).ok(), any, Law::None, false);
                }
            }
            // ---- unit geometry
            let norm1 = move |c: &[f64]| {
                if c.iter().any(|x| x.is_nan()) { return Some("NaN"); }
                let n2: f64 = c.iter().map(|x| x * x).sum();
                let tol = if IS32 { 4.0 * f32::EPSILON as f64 } else { 4.0 * f64::EPSILON };
                if (n2.sqrt() - 1.0).abs() > tol { Some("norm differs from 1 by more than 4 ulp") } else { None }
            };
            let norm_le1 = move |c: &[f64]| {
                if c.iter().any(|x| x.is_nan()) { return Some("NaN"); }
                let n2: f64 = c.iter().map(|x| x * x).sum();
                // the sampler's own test is done in F; allow one rounding of the sum
                let tol = if IS32 { 2.0 * f32::EPSILON as f64 } else { 2.0 * f64::EPSILON };
                if n2 > 1.0 + tol { Some("norm exceeds 1") } else { None }
            };
            let tau = 2.0 * std::f64::consts::PI;
            let ang = move |y: f64, x: f64| { let a = y.atan2(x) / tau; if a < 0.0 { a + 1.0 } else { a } };
            let unif01 = || cont(|x| x.clamp(0.0, 1.0), 0.0, 1.0);
            r.addv::<_, [F; 2]>("UnitCircle", N, format!("UnitCircle<{N}>:angle"), vec![], || Some(Unit(UnitCircle)), move |c| ang(c[1], c[0]), norm1, unif01(), true);
            r.addv::<_, [F; 2]>("UnitDisc", N, format!("UnitDisc<{N}>:r2"), vec![], || Some(Unit(UnitDisc)), |c| c[0] * c[0] + c[1] * c[1], norm_le1, unif01(), true);
            r.addv::<_, [F; 2]>("UnitDisc", N, format!("UnitDisc<{N}>:angle"), vec![], || Some(Unit(UnitDisc)), move |c| ang(c[1], c[0]), norm_le1, unif01(), true);
            r.addv::<_, [F; 2]>("UnitDisc", N, format!("UnitDisc<{N}>:angle|r2<0.25"), vec![], || Some(Unit(UnitDisc)),
                move |c| if c[0] * c[0] + c[1] * c[1] < 0.25 { ang(c[1], c[0]) * 0.25 } else { 0.25 + 0.75 * ang(c[1], c[0]) }, norm_le1, unif01(), true);
            r.addv::<_, [F; 3]>("UnitSphere", N, format!("UnitSphere<{N}>:z"), vec![], || Some(Unit(UnitSphere)), |c| 0.5 * (c[2] + 1.0), norm1, unif01(), true);
            r.addv::<_, [F; 3]>("UnitSphere", N, format!("UnitSphere<{N}>:longitude"), vec![], || Some(Unit(UnitSphere)), move |c| ang(c[1], c[0]), norm1, unif01(), true);
            r.addv::<_, [F; 3]>("UnitSphere", N, format!("UnitSphere<{N}>:x"), vec![], || Some(Unit(UnitSphere)), |c| 0.5 * (c[0] + 1.0), norm1, unif01(), true);
            r.addv::<_, [F; 3]>("UnitSphere", N, format!("UnitSphere<{N}>:longitude|z<0"), vec![], || Some(Unit(UnitSphere)),
                move |c| if c[2] < 0.0 { 0.5 * ang(c[1], c[0]) } else { 0.5 + 0.5 * ang(c[1], c[0]) }, norm1, unif01(), true);
            r.addv::<_, [F; 3]>("UnitBall", N, format!("UnitBall<{N}>:r3"), vec![], || Some(Unit(UnitBall)), |c| (c[0] * c[0] + c[1] * c[1] + c[2] * c[2]).powf(1.5), norm_le1, unif01(), true);
            r.addv::<_, [F; 3]>("UnitBall", N, format!("UnitBall<{N}>:z/r"), vec![], || Some(Unit(UnitBall)),
                |c| { let rr = (c[0] * c[0] + c[1] * c[1] + c[2] * c[2]).sqrt(); if rr == 0.0 { 0.5 } else { 0.5 * (c[2] / rr + 1.0) } }, norm_le1, unif01(), true);
            r.addv::<_, [F; 3]>("UnitBall", N, format!("UnitBall<{N}>:longitude"), vec![], || Some(Unit(UnitBall)), move |c| ang(c[1], c[0]), norm_le1, unif01(), true);

            // ---- Dirichlet
            let big = if IS32 { 1e3 } else { 1e4 };
            let mut alphas: Vec<Vec<f64>> = vec![
                vec![0.05, 0.1], vec![0.1, 0.1], vec![1e-3, 0.05], vec![0.5, 0.5], vec![1.0, 7.0], vec![0.11, 0.1], vec![7.0, 0.05], vec![1e-3, 1.0],
                vec![0.05, 0.1, 0.02], vec![0.1, 0.1, 0.1], vec![0.5, 1.0, 7.0], vec![0.11, 0.05, 0.1], vec![1e-3, 1.0, big], vec![2.0, 3.0, 4.0], vec![0.02, 0.09, 0.05],
                vec![0.05, 0.1, 0.02, 0.07], vec![0.5, 1.0, 7.0, 0.11], vec![1.0, 1.0, 1.0, 1.0],
                vec![0.05; 8], vec![1.0, 0.5, 0.11, 7.0, 1e-3, 0.05, big, 1.0],
                // maximum exactly at the 0.1 switch with tiny other entries, and just above it
                vec![0.1, 1e-3, 1e-3], vec![1e-3, 0.1], vec![0.11, 1e-3, 1e-3], vec![1e-3, 1e-3, 0.1, 1e-3],
                // unequal small entries in descending order and with the maximum in the middle (the lists above are ascending)
                vec![0.1, 0.05], vec![0.08, 0.02], vec![0.1, 0.05, 0.02], vec![0.02, 0.1, 0.05],
            ];
            alphas.push((0..64).map(|i| [1e-3, 0.05, 0.1, 0.02][i % 4]).collect());
            alphas.push((0..64).map(|i| [1e-3, 0.05, 0.11, 0.5, 1.0, 7.0, big][i % 7]).collect());
            for al in alphas {
                let n = al.len();
                let alr: Vec<f64> = al.iter().map(|&a| R(a)).collect();
                let sum: f64 = alr.iter().sum();
                let alf: Vec<F> = al.iter().map(|&a| a as F).collect();
                let tol = n as f64 * 2.0 * if IS32 { f32::EPSILON as f64 } else { f64::EPSILON };
                let simplex = move |c: &[f64]| {
                    if c.len() != n { return Some("wrong length"); }
                    if c.iter().any(|x| x.is_nan()) { return Some("NaN"); }
                    if c.iter().any(|&x| !(0.0..=1.0).contains(&x)) { return Some("component outside [0,1]"); }
                    let s: f64 = c.iter().sum();
                    if (s - 1.0).abs() > tol { Some("components do not sum to 1") } else { None }
                };
                // projections: marginals of component 0 and last, one ratio
                let mut projs: Vec<(String, Box<dyn Fn(&[f64]) -> f64 + Send + Sync>, Law)> = vec![];
                if n <= 3 {
                    for i in 0..n {
                        let (a, b) = (alr[i], sum - alr[i]);
                        projs.push((format!("x{i}"), Box::new(move |c: &[f64]| c[i]), cont(move |x| beta_cdf(x, a, b), 0.0, 1.0)));
                    }
                    let (a, b) = (alr[0], alr[n - 1]);
                    projs.push((format!("x0/(x0+x{})", n - 1), Box::new(move |c: &[f64]| { let d = c[0] + c[n - 1]; if d > 0.0 { c[0] / d } else { 0.5 } }), cont(move |x| beta_cdf(x, a, b), 0.0, 1.0)));
                } else {
                    projs.push(("x0".into(), Box::new(|c: &[f64]| c[0]), Law::None));
                }
                for (pn, pf, law) in projs {
                    let alf2 = alf.clone();
                    let inlaw = !matches!(law, Law::None);
                    let c = r.addv::<_, Vec<F>>("Dirichlet", N, format!("Dirichlet<{N}>({:?}):{pn}", al), al.clone(),
                        move || Dirichlet::<F>::new(&alf2).ok(), pf, simplex.clone(), law, inlaw);
                    if al.iter().any(|&a| a < 0.02) && IS32 { c.in_law = false; }
                    // three or more components with small alpha: the mass of every marginal and ratio sits within float
                    // granularity of 0 and 1 (1 - x cancellation in the stick-breaking chain); law not judged there
                    if n >= 3 && al.iter().any(|&a| a < 0.2) { c.in_law = false; }
                    c.abs_gran = 4.0 * if IS32 { f32::EPSILON as f64 } else { f64::EPSILON };
                }
            }
        }
    };
}

float_cases!(cases_f64, f64, "f64", false);
float_cases!(cases_f32, f32, "f32", true);

pub fn cases_int(r: &mut Reg, tier: Tier, _seed: u64) {
    // ---- Binomial
    let ps = [1e-9, 0.01, 0.05, 0.1, 0.2, 0.3, 1.0 / 3.0, 0.4, 0.5, 0.6, 0.7, 0.8, 0.9, 0.95, 0.99, 1.0 - 1e-9, 0.0, 1.0];
    let mut bin: Vec<(u64, f64, bool)> = vec![];
    for n in 0..=30u64 {
        for &p in &ps {
            bin.push((n, p, true));
        }
    }
    for &n in &[100u64, 1000, 1_000_000, 1 << 32, 1 << 53, 1 << 62] {
        let nf = n as f64;
        for &np in &[9.99, 10.01, 50.0] {
            bin.push((n, np / nf, true));
            bin.push((n, 1.0 - np / nf, true));
        }
        bin.push((n, 0.5, true));
        bin.push((n, 0.3, true));
    }
    bin.push((1 << 61, 1e-17, true));
    bin.push((u64::MAX, 1e-19, true));
    // BTPE with npq between 50 and 2e5 (step 5.3, the Stirling test, is only reached for 20 < |y - m| < npq/2 - 1):
    // the grid above has np just above the switch and n >= 2^32 only
    for &(n, p) in &[(603u64, 0.25), (2000, 0.4), (8000, 0.05), (30000, 0.99), (100_000, 0.004), (1_000_000, 0.3)] {
        bin.push((n, p, true));
    }
    for &n in &[1u64 << 63, u64::MAX] {
        for &p in &[0.5, 0.3, 1e-3, 1.0 - 1e-3] {
            bin.push((n, p, false));
        }
    }
    // inverse-transform regime at the extremes of n (np between 1e-3 and just below the BINV/BTPE switch)
    for &n in &[1u64 << 32, 1 << 53, 1 << 63, u64::MAX] {
        for &np in &[1e-3, 1.0, 5.6, 9.9] {
            bin.push((n, np / n as f64, false));
            bin.push((n, 1.0 - np / n as f64, false));
        }
    }
    let _ = tier;
    for (n, p, inlaw) in bin {
        let nf = n as f64;
        let chk = move |x: u64| if x > n { Some("above n") } else { None };
        let bref = Arc::new(std::sync::OnceLock::<DiscRef>::new());
        let c = r.add("Binomial", "u64", &[("n", nf), ("p", p)], move || Binomial::new(n, p).ok(), chk, disc(move |k| bref.get_or_init(|| binomial_ref(nf, p)).cdf(k), 0.0, nf), inlaw);
        let pp = p.min(1.0 - p);
        if pp > 0.0 && 1.0 - pp == 1.0 && nf * pp < 10.0 { c.law_note = "Poisson-limit branch (Knuth product method): law not decided"; }
    }
    // ---- random interior points (from VERIF_SEED)
    {
        let nr = if tier == Tier::Quick { 3 } else { 12 };
        let mut sm = crate::rng::SplitMix::seeded(_seed.wrapping_mul(0x51D).wrapping_add(7));
        let mut u01 = || (sm.next() >> 11) as f64 / (1u64 << 53) as f64;
        for _ in 0..nr {
            let n = (2f64.powf(u01() * 40.0)).round() as u64 + 1;
            let p = ((1e-12f64.ln() + u01() * (0.5f64.ln() - 1e-12f64.ln())).exp() * 1e15).round() / 1e15;
            let p = if u01() < 0.5 { p } else { 1.0 - p };
            let nf = n as f64;
            let chk = move |x: u64| if x > n { Some("above n") } else { None };
            let bref = Arc::new(std::sync::OnceLock::<DiscRef>::new());
            let c = r.add("Binomial", "u64", &[("n", nf), ("p", p)], move || Binomial::new(n, p).ok(), chk, disc(move |k| bref.get_or_init(|| binomial_ref(nf, p)).cdf(k), 0.0, nf), true);
            let pp = p.min(1.0 - p);
            if pp > 0.0 && 1.0 - pp == 1.0 && nf * pp < 10.0 { c.law_note = "Poisson-limit branch (Knuth product method): law not decided"; }
            let gp = (2f64.powf(-53.0 * u01()) * 1e18).round() / 1e18;
            if gp > 0.0 && gp <= 1.0 {
                r.add("Geometric", "u64", &[("p", gp)], move || Geometric::new(gp).ok(), |_x: u64| None, disc(move |k| geometric_cdf(k, gp), 0.0, INF), true);
            }
            let nn = (2f64.powf(3.0 + u01() * 17.0)).round() as u64;
            let kk = ((nn as f64) * u01()).round() as u64;
            let ns = ((nn as f64) * u01()).round() as u64;
            let lo = (ns as u128 + kk as u128).saturating_sub(nn as u128) as u64;
            let hi = ns.min(kk);
            let chkh = move |x: u64| if x < lo || x > hi { Some("outside [max(0,n+K-N), min(n,K)]") } else { None };
            let (nf2, kf, sf) = (nn as f64, kk as f64, ns as f64);
            let href = Arc::new(std::sync::OnceLock::<DiscRef>::new());
            r.add("Hypergeometric", "u64", &[("N", nf2), ("K", kf), ("n", sf)], move || Hypergeometric::new(nn, kk, ns).ok(), chkh, disc(move |x| href.get_or_init(|| hypergeom_ref(nf2, kf, sf)).cdf(x), lo as f64, hi as f64), true);
        }
    }
    // ---- Geometric
    for &p in &[1.0, 0.9, 2.0 / 3.0, 0.66, 0.5, 0.3, 0.1, 0.01, 1e-3, 1e-6, 2e-10, 1e-12, 2f64.powi(-53)] {
        r.add("Geometric", "u64", &[("p", p)], move || Geometric::new(p).ok(), |_x: u64| None, disc(move |k| geometric_cdf(k, p), 0.0, INF), true);
    }
    r.add("Geometric", "u64", &[("p", 2f64.powi(-54))], || Geometric::new(2f64.powi(-54)).ok(), |x: u64| if x == u64::MAX { None } else { Some("documented u64::MAX expected") }, Law::None, false);
    r.add("Geometric", "u64", &[("p", 0.0)], || Geometric::new(0.0).ok(), |x: u64| if x == u64::MAX { None } else { Some("Geometric(0) must be u64::MAX") }, Law::None, false);
    r.add("StandardGeometric", "u64", &[], || Some(Unit(StandardGeometric)), |_x: u64| None, disc(|k| geometric_cdf(k, 0.5), 0.0, INF), true);
    // ---- Hypergeometric: large grid (the exhaustive N <= 40 space is enumerated by the C02/C03 engines directly)
    let mut hyp: Vec<(u64, u64, u64, bool)> = vec![
        (500, 400, 30, true), (250, 200, 230, true), (5000, 2500, 500, true), (10100, 10000, 1000, true), (10100, 100, 1000, true), (100100, 100, 10000, true),
        (1 << 40, 1 << 39, 1 << 20, true), (1 << 40, 1 << 20, 1 << 39, true),
        (60, 30, 17, true), (60, 30, 19, true), (60, 30, 21, true), (200, 50, 40, true), (200, 50, 44, true), (200, 150, 160, true),
        // siblings differing in one population count only (same sample size and feature count)
        (10040, 500, 400, true), (9600, 500, 400, true),
        // large mode with K != N - K after the reflections (the final acceptance step of H2PE is only reached for mode >= 100)
        (30000, 10000, 6000, true), (30000, 20000, 24000, true), (1_000_000, 300_000, 100_000, true),
    ];
    for &nn in &[u64::MAX - 2, 1 << 63, 1 << 62] {
        hyp.push((nn, nn / 2, 1000, false));
        hyp.push((nn, 1000, nn / 2, false));
        hyp.push((nn, nn / 3, nn / 5, false));
        hyp.push((nn, 5, 5, false));
    }
    for (nn, kk, n, inlaw) in hyp {
        let lo = (n as u128 + kk as u128).saturating_sub(nn as u128) as u64;
        let hi = n.min(kk);
        let chk = move |x: u64| if x < lo || x > hi { Some("outside [max(0,n+K-N), min(n,K)]") } else { None };
        let (nf, kf, sf) = (nn as f64, kk as f64, n as f64);
        r.add("Hypergeometric", "u64", &[("N", nf), ("K", kf), ("n", sf)], move || Hypergeometric::new(nn, kk, n).ok(), chk,
            { let href = Arc::new(std::sync::OnceLock::<DiscRef>::new()); disc(move |x| href.get_or_init(|| hypergeom_ref(nf, kf, sf)).cdf(x), lo as f64, hi as f64) }, inlaw);
    }
}

/// P(X <= x) by summing the pmf from the nearer end (support sizes here are <= 2^20 for in-law cases)
pub fn hypergeom_cdf(x: f64, nn: u64, kk: u64, n: u64) -> f64 {
    let lo = (n as u128 + kk as u128).saturating_sub(nn as u128) as u64;
    let hi = n.min(kk);
    if x < lo as f64 {
        return 0.0;
    }
    if x >= hi as f64 {
        return 1.0;
    }
    let x = x.floor() as u64;
    // sum the smaller side, bounded work: terms decay fast away from the mode
    let mode = (((n + 1) as f64) * ((kk + 1) as f64) / ((nn + 2) as f64)).floor() as u64;
    if x < mode {
        let mut s = 0.0;
        let mut k = x;
        loop {
            let t = hypergeom_pmf(k, nn, kk, n);
            s += t;
            if k == lo || t < 1e-20 * s.max(1e-300) {
                break;
            }
            k -= 1;
        }
        s
    } else {
        let mut s = 0.0;
        let mut k = x + 1;
        while k <= hi {
            let t = hypergeom_pmf(k, nn, kk, n);
            s += t;
            if t < 1e-20 * s.max(1e-300) {
                break;
            }
            k += 1;
        }
        1.0 - s
    }
}

pub fn all_cases(tier: Tier, seed: u64) -> Vec<Case> {
    let mut r = Reg { v: vec![] };
    cases_f64(&mut r, tier, seed);
    cases_f32(&mut r, tier, seed);
    cases_int(&mut r, tier, seed);
    let mut seen = std::collections::BTreeSet::new();
    r.v.retain(|c| seen.insert(c.label.clone()));
    r.v
}
