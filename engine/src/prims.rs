//! Macro-atom alphabets of the two ziggurat primitives, rebuilt from the current tree on every run
//! (DESIGN.md §3.1.5), and the C06 law check of the primitives themselves.

use crate::refs::{exp_cdf, phi, quantile};
use crate::sampler::{Sampler, Sc, Unit};
use crate::tree::*;
use rand_distr::{Exp1, StandardNormal};
use std::sync::Arc;

pub fn prim_sampler(id: u8) -> Box<dyn Sampler> {
    if id == 1 {
        Box::new(Sc::<_, f64>::new(Unit(StandardNormal), Arc::new(|x: f64| if x.is_finite() { None } else { Some("non-finite") })))
    } else {
        Box::new(Sc::<_, f64>::new(Unit(Exp1), Arc::new(|x: f64| if x.is_finite() && x >= 0.0 { None } else { Some("non-finite or negative") })))
    }
}

pub fn prim_grid(id: u8, n: usize) -> Grid {
    let cdf: Box<dyn Fn(f64) -> f64> = if id == 1 { Box::new(phi) } else { Box::new(|x| exp_cdf(x, 1.0)) };
    let (lo, hi) = if id == 1 { (-f64::INFINITY, f64::INFINITY) } else { (0.0, f64::INFINITY) };
    let mut qs: Vec<f64> = (1..n).map(|k| k as f64 / n as f64).collect();
    for e in 3..=9 {
        for m in [1.0, 3.0] {
            let t = m * 10f64.powi(-e);
            qs.push(t);
            qs.push(1.0 - t);
        }
    }
    qs.sort_by(|a, b| a.partial_cmp(b).unwrap());
    qs.dedup();
    let mut cps: Vec<f64> = qs.iter().map(|&q| quantile(&*cdf, q, lo, hi)).collect();
    cps.dedup();
    Grid { cps, consecutive_int: false }
}

pub struct PrimResult {
    pub res: Res,
    pub grid: Grid,
    pub cnt: Counters,
    pub bad: Vec<BadLeaf>,
}

/// raw exploration of one primitive at first-word resolution 256 x `strata`, layers split over threads
pub fn explore_prim(id: u8, strata: u32, lattice2: u32, collect: bool) -> PrimResult {
    use rayon::prelude::*;
    let grid = prim_grid(id, 1024);
    let chunks: Vec<(u64, u64)> = (0..64).map(|i| (i * 4, i * 4 + 4)).collect();
    let parts: Vec<(Res, Counters, Vec<BadLeaf>)> = chunks
        .par_iter()
        .map(|&(lo, hi)| {
            let s = prim_sampler(id);
            let mut cfg = TreeCfg::default();
            cfg.collect_flat = collect;
            cfg.lattice = vec![lattice2, lattice2, 64, 8];
            cfg.tail_bits = 40;
            cfg.tail_points = 4;
            cfg.exec_budget = 20_000_000_000;
            cfg.deadline = Some(std::time::Instant::now() + std::time::Duration::from_secs(if strata > (1 << 14) { 600 } else { 90 }));
            let mut ex = Explorer::new(&*s, &grid, cfg, None);
            let r = ex.run_zig_product(strata, lo, hi).expect("primitive consumes no random word?");
            (r, ex.cnt.clone(), ex.bad_leaves.clone())
        })
        .collect();
    let mut cnt = Counters::default();
    let mut bad = vec![];
    let mut rs = vec![];
    for (r, c, b) in parts {
        cnt.execs += c.execs;
        cnt.nodes += c.nodes;
        cnt.edges += c.edges;
        cnt.leaves += c.leaves;
        cnt.restarts += c.restarts;
        cnt.more += c.more;
        cnt.panics += c.panics;
        cnt.boundaries += c.boundaries;
        cnt.subdivided += c.subdivided;
        cnt.lattice_nodes += c.lattice_nodes;
        cnt.memo_hits += c.memo_hits;
        cnt.max_depth = cnt.max_depth.max(c.max_depth);
        bad.extend(b);
        rs.push(r);
    }
    let mut res = merge_partials(rs, grid.k(), collect);
    close_loops_k(&mut res, 0, grid.k());
    PrimResult { res, grid: grid.clone(), cnt, bad }
}

pub fn build_macros(strata: u32, lattice2: u32) -> (MacroAlphabets, Vec<PrimResult>) {
    let mut ma = MacroAlphabets::default();
    let mut out = vec![];
    for id in [1u8, 2u8] {
        let mut pr = explore_prim(id, strata, lattice2, true);
        let mut flat = pr.res.flat.take().unwrap_or_default();
        flat.sort_by(|a, b| a.0.partial_cmp(&b.0).unwrap());
        ma.flat.insert(id, flat);
        let eps: Vec<(f64, f64)> = (0..pr.grid.k()).map(|i| (pr.grid.cps[i], pr.res.err.get(i).cloned().unwrap_or(0.0).min(pr.res.err_hi.get(i).cloned().unwrap_or(0.0)))).collect();
        ma.eps.insert(id, eps);
        out.push(pr);
    }
    (ma, out)
}
