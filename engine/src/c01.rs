//! C01 / C02 / C11-law / C12-law: law checks with engine T over the case registry.

use crate::cases::{Case, Tier, all_cases};
use crate::lawcheck::{LawOutcome, check_case, outcome_json};
use crate::report::{Report, hex_words};
use rayon::prelude::*;
use serde_json::json;
use std::sync::Mutex;

pub fn select(prop: &str, c: &Case) -> bool {
    if !c.in_law {
        return false;
    }
    let disc = ["Binomial", "Poisson", "Geometric", "StandardGeometric", "Hypergeometric", "Zipf", "Zeta"];
    match prop {
        "C01" => !disc.contains(&c.family) && c.family != "Dirichlet" && !c.family.starts_with("Unit"),
        "C02" => disc.contains(&c.family),
        "C11" => c.family == "Dirichlet",
        "C12" => c.family.starts_with("Unit"),
        _ => false,
    }
}

pub struct LawRun {
    pub outcomes: Vec<LawOutcome>,
    pub prim_execs: u64,
    pub prim_nodes: u64,
    pub prim_eps: (f64, f64),
    pub skipped_time_cap: u64,
}

pub fn run_law(prop: &str, tier: Tier, seed: u64, extra: Vec<Case>) -> LawRun {
    let strata = if tier == Tier::Quick { 1 << 13 } else { 1 << 15 };
    let (ma, prs) = crate::prims::build_macros(strata, if tier == Tier::Quick { 1 << 9 } else { 1 << 11 });
    let prim_execs = prs.iter().map(|p| p.cnt.execs).sum();
    let prim_nodes = prs.iter().map(|p| p.cnt.nodes).sum();
    let eps = |i: usize| prs[i].res.err.iter().zip(prs[i].res.err_hi.iter()).map(|(a, b)| a.min(*b)).fold(0.0, f64::max);
    let prim_eps = (eps(0), eps(1));
    let macros = Mutex::new(ma);
    let mut cases: Vec<Case> = all_cases(tier, seed).into_iter().filter(|c| select(prop, c)).collect();
    cases.extend(extra);
    // overall wall-clock cap: cases not started before it are skipped and counted (a cap is never a verdict)
    let global = std::time::Instant::now() + std::time::Duration::from_secs(if tier == Tier::Quick { 300 } else { 3000 });
    let skipped = std::sync::atomic::AtomicU64::new(0);
    let outcomes: Vec<LawOutcome> = cases.par_iter().filter_map(|c| {
        if std::time::Instant::now() > global {
            skipped.fetch_add(1, std::sync::atomic::Ordering::Relaxed);
            return None;
        }
        check_case(c, &macros, tier)
    }).collect();
    LawRun { outcomes, prim_execs, prim_nodes, prim_eps, skipped_time_cap: skipped.into_inner() }
}

pub fn report_law(rep: &Report, prop: &str, run: &LawRun) {
    let mut states = run.prim_nodes;
    let mut trans = 0u64;
    let mut execs = run.prim_execs;
    let (mut judged, mut unjudged, mut unresolved) = (0u64, 0u64, 0u64);
    let mut worst: Vec<&LawOutcome> = run.outcomes.iter().collect();
    worst.sort_by(|a, b| b.worst_ratio.partial_cmp(&a.worst_ratio).unwrap());
    let mut distinct_leaves = 0u64;
    for o in &run.outcomes {
        states += o.cnt.nodes;
        trans += o.cnt.edges;
        execs += o.cnt.execs;
        distinct_leaves += o.cnt.leaves;
        unresolved += o.unresolved as u64;
        if o.judged { judged += 1 } else { unjudged += 1 }
        if !o.ok {
            rep.violation(
                format!("{}|law|{}", o.label.split('<').next().unwrap_or(""), o.label),
                format!("{}: explored law deviates from the documented one by {:.3e} at x = {:e} (reference cdf {:.6e}); a-posteriori tolerance {:.3e} (ratio {:.2})", o.label, o.worst_dev, o.worst_at, o.worst_ref, o.worst_tol, o.worst_ratio),
                json!({"case": o.label, "checkpoint": o.worst_at, "reference_cdf": o.worst_ref, "deviation": o.worst_dev, "tolerance": o.worst_tol, "explorer": outcome_json(o),
                       "boundary_scripts": o.boundary_scripts.iter().take(8).map(|s| hex_words(s)).collect::<Vec<_>>(),
                       "replay": "rerun `rdverif check T '<case label>'` (deterministic: the exploration has no random choices)"}),
            );
        }
        if prop != "C03" {
            // out-of-support / panicking leaves met while exploring are real executions: report them under this property too
            for b in o.bad_leaves.iter().take(2) {
                rep.violation(
                    format!("{}|bad-leaf|{}|{}", o.label.split('<').next().unwrap_or(""), b.what.chars().take(50).collect::<String>(), o.label),
                    format!("{}: execution met during the exploration returned outside the support or panicked: {} (value {:e})", o.label, b.what, b.value),
                    json!({"case": o.label, "script_words": hex_words(&b.script), "what": b.what, "continuation_seed": 1}),
                );
            }
        }
    }
    rep.set("states", json!(states));
    rep.set("transitions", json!(trans.max(1)));
    rep.set("traces_validated_against_impl", json!(execs));
    rep.set("evaluations", json!(execs));
    rep.set("distinct_nontrivial", json!(distinct_leaves));
    rep.set("rule", json!("states = explored nodes (script prefixes with a pending request) of the execution graphs, transitions = classified children, every one obtained by running the real sample(); distinct_nontrivial = leaf executions (complete sample() calls)"));
    rep.set("cases", json!(run.outcomes.len()));
    rep.set("cases_judged", json!(judged));
    rep.set("cases_not_judged", json!(unjudged));
    rep.set("tail_checkpoints_unresolved", json!(unresolved));
    rep.set("cases_skipped_by_the_wall_clock_cap", json!(run.skipped_time_cap));
    rep.set("cases_cut_short_by_budget_or_time", json!(run.outcomes.iter().filter(|o| o.cnt.budget_hit).count()));
    rep.set("primitive_eps_normal_exp", json!([run.prim_eps.0, run.prim_eps.1]));
    rep.set("exhaustive", json!(false));
    let samples: Vec<_> = worst.iter().take(12).map(|o| outcome_json(o)).collect();
    rep.set("samples", json!(samples));
    rep.set("max_dev_over_tol", json!(worst.first().map(|o| o.worst_ratio).unwrap_or(0.0)));
    let memo: u64 = run.outcomes.iter().map(|o| o.cnt.memo_hits).sum();
    let restarts: u64 = run.outcomes.iter().map(|o| o.cnt.restarts).sum();
    let bnd: u64 = run.outcomes.iter().map(|o| o.cnt.boundaries).sum();
    let comb: u64 = run.outcomes.iter().map(|o| o.cnt.comb_nodes).sum();
    rep.set("restart_edges_closed", json!(restarts));
    rep.set("memo_hits_confirmed_by_witness_replay", json!(memo));
    rep.set("exact_boundaries_bisected", json!(bnd));
    rep.set("comb_nodes", json!(comb));
    rep.assume("finite RNG alphabets: macro-atoms of the ziggurat primitives (rebuilt from the current code), midpoint lattices with dyadic tail strata, exact interval subdivision for comparison-only words; the tolerance per checkpoint is computed from the explored alphabets (variation bound, turning points, comb nodes, residual mass) and is never tuned");
    rep.assume("A-res: between two adjacent explored words of one request the conditional law is monotone (no feature narrower than the local resolution); multi-level cases additionally pay one cell of their second level");
    rep.assume("restart (loop closure) and memo merges are bounded bisimulation tests on the implementation: 10 continuation streams, the ancestor's boundary scripts, and witness-script replay");
    rep.assume("reference laws: closed forms, special-function crate, Loader saddle-point pmfs, Edgeworth for sd > 1.5e5; cross-checked against scipy (DESIGN.md)");
}

pub fn run(prop: &'static str, tier: Tier, seed: u64) -> i32 {
    let rep = Report::new(prop, "model_checking", if tier == Tier::Quick { "quick" } else { "thorough" }, seed);
    let lr = run_law(prop, tier, seed, vec![]);
    report_law(&rep, prop, &lr);
    rep.finish()
}

/// C11 / C12 safety parts: deviation-bounded exploration (engine D) of the vector samplers, and for Dirichlet the
/// agreement of `sample` with `sample_to_slice` into a dirty buffer on the same stream.
pub fn run_vec(prop: &'static str, tier: Tier, seed: u64) -> i32 {
    use crate::dev::*;
    use std::sync::Arc;
    let rep = Report::new(prop, "model_checking", if tier == Tier::Quick { "quick" } else { "thorough" }, seed);
    let lr = run_law(prop, tier, seed, vec![]);
    report_law(&rep, prop, &lr);
    // engine D over every case of the family (law and non-law)
    let fam_ok = |c: &Case| if prop == "C11" { c.family == "Dirichlet" } else { c.family.starts_with("Unit") };
    let mut cases: Vec<Case> = all_cases(tier, seed).into_iter().filter(|c| fam_ok(c)).collect();
    let mut seen = std::collections::BTreeSet::new();
    cases.retain(|c| seen.insert(format!("{}|{}|{:?}", c.family, c.fty, c.params)));
    let cases = Arc::new(cases);
    let mut cfg = DevConfig::new(tier, seed);
    if prop == "C11" {
        cfg.positions = if tier == Tier::Quick { 8 } else { 24 };
    }
    let res = sweep(cases.clone(), Arc::new(cfg), prop == "C12");
    for f in &res.findings {
        if matches!(f.kind, "panic" | "support" | "ctor-panic") {
            report_finding(&rep, &cases, f);
        }
    }
    let dex = res.stats.executions.load(std::sync::atomic::Ordering::Relaxed);
    rep.set("deviation_executions", json!(dex));
    rep.set("deviation_cases", json!(cases.len()));
    if prop == "C11" {
        let n = dirichlet_slice_agreement(&rep, &cases, tier, seed);
        rep.set("sample_vs_sample_to_slice_pairs", json!(n));
    }
    rep.assume("norm / simplex constraints are judged on every execution of the deviation-bounded exploration (0 and 1 deviations over the boundary lattice) and on every leaf of the law exploration");
    rep.finish()
}

fn dirichlet_slice_agreement(rep: &Report, cases: &[Case], tier: Tier, seed: u64) -> u64 {
    use crate::rng::{ScriptRng, SplitMix};
    use rand::distr::Distribution;
    use rand_distr::multi::{Dirichlet, MultiDistribution};
    let lam = crate::dev::lambda_words();
    let seeds: Vec<u64> = (0..if tier == Tier::Quick { 4 } else { 16 }).map(|i| seed * 1000 + i).collect();
    let mut pairs = 0u64;
    macro_rules! go {
        ($F:ty, $c:expr) => {{
            let al: Vec<$F> = $c.params.iter().map(|&a| a as $F).collect();
            if let Some(d) = crate::exec::ctor_guard(&$c.label, || Dirichlet::<$F>::new(&al).ok()) {
                let n = al.len();
                for &s in &seeds {
                    for pos in 0..6usize {
                        for wi in 0..=lam.len() {
                            let mut sm = SplitMix::seeded(s);
                            let mut script: Vec<u64> = (0..=pos).map(|_| sm.next()).collect();
                            if wi < lam.len() { script[pos] = lam[wi]; } else if pos > 0 { continue; }
                            // three consecutive samples: sample() vs sample_to_slice() into the same, reused buffer
                            let mut ra = ScriptRng::with_cont(&script, sm);
                            let mut rb = ScriptRng::with_cont(&script, sm);
                            let mut buf: Vec<$F> = vec![0.75 as $F; n];
                            for it in 0..3 {
                                let r = std::panic::catch_unwind(std::panic::AssertUnwindSafe(|| crate::exec::in_subject(|| { let a: Vec<$F> = d.sample(&mut ra); d.sample_to_slice(&mut rb, &mut buf); a })));
                                pairs += 1;
                                match r {
                                    Err(_) => { break; } // panics are reported by the deviation sweep
                                    Ok(a) => {
                                        let same = a.len() == buf.len() && a.iter().zip(buf.iter()).all(|(x, y)| x.to_bits() == y.to_bits()) && ra.pos == rb.pos && ra.cont == rb.cont;
                                        if !same || d.sample_len() != n {
                                            rep.violation(format!("Dirichlet|slice-mismatch|{}", $c.label), format!("{}: sample() and sample_to_slice() into a reused buffer disagree on the same stream at sample #{it}: {:?} vs {:?}", $c.label, a, buf),
                                                json!({"case": $c.label, "script_words": crate::report::hex_words(&script), "base_seed": s, "iteration": it}));
                                            break;
                                        }
                                    }
                                }
                            }
                        }
                    }
                }
            }
        }};
    }
    for c in cases {
        if c.fty == "f64" { go!(f64, c) } else { go!(f32, c) }
    }
    pairs
}
