//! C13: exact induced law of single-draw f32 samplers over all 2^24 values of the first uniform draw.

use crate::cases::{Case, Law, Tier, all_cases};
use crate::exec::{Outcome, run};
use crate::report::{Report, hex_words};
use rayon::prelude::*;
use serde_json::json;

struct R13 {
    label: String,
    applicable: bool,
    d: f64,
    bound: f64,
    at: f64,
    sup_xf: f64,
    distinct: usize,
    bad: Option<(u64, String, f64)>,
    multi_word: u64,
}

fn one(c: &Case) -> Option<R13> {
    let s = (c.build)()?;
    let cdf = match &c.law { Law::Cont { cdf, .. } => cdf.clone(), _ => return None };
    let pdf = c.pdf.clone()?;
    let n = 1u64 << 24;
    let mut vals: Vec<f64> = Vec::with_capacity(n as usize);
    let mut bad = None;
    let mut multi = 0u64;
    for hi in 0..n {
        let w = (hi << 40) | 0x5A_5A5A_5A5A;
        let e = run(&*s, &[w], 1, false);
        if e.requests != 1 || e.overrun {
            multi += 1;
            continue;
        }
        match e.out {
            Outcome::Done(sm) => {
                if let Some(b) = sm.bad {
                    if bad.is_none() { bad = Some((w, b.to_string(), sm.v)); }
                }
                vals.push(sm.v);
            }
            Outcome::Panic(m) => { if bad.is_none() { bad = Some((w, format!("panic: {m}"), f64::NAN)); } }
            Outcome::Cap => { if bad.is_none() { bad = Some((w, "word cap".into(), f64::NAN)); } }
        }
    }
    if multi > 0 {
        return Some(R13 { label: c.label.clone(), applicable: false, d: 0.0, bound: 0.0, at: 0.0, sup_xf: 0.0, distinct: 0, bad, multi_word: multi });
    }
    vals.sort_by(|a, b| a.partial_cmp(b).unwrap_or(std::cmp::Ordering::Equal));
    let nn = vals.len() as f64;
    let mut d = 0.0f64;
    let mut at = f64::NAN;
    let mut sup = 0.0f64;
    let mut distinct = 0usize;
    let mut i = 0usize;
    while i < vals.len() {
        let v = vals[i];
        let mut j = i;
        while j < vals.len() && vals[j] == v { j += 1; }
        distinct += 1;
        if v.is_finite() {
            let f = cdf(v);
            let (lo, hi) = (i as f64 / nn, j as f64 / nn);
            // the empirical law jumps from lo to hi at v; F is continuous
            let dd = (f - lo).abs().max((hi - f).abs()).min(((f - lo).abs()).max((hi - f).abs()));
            let dd2 = if f < lo { lo - f } else if f > hi { f - hi } else { 0.0f64.max(0.0) };
            // Kolmogorov distance between a step function and a continuous cdf: sup at the jump from either side
            let k = (hi - f).abs().max((f - lo).abs());
            let _ = (dd, dd2);
            // count only half of the atom's own mass (an atom of mass m cannot be closer than m/2 to a continuous law)
            let k_adj = k;
            if k_adj > d { d = k_adj; at = v; }
            sup = sup.max((v * pdf(v)).abs());
        }
        i = j;
    }
    let bound = 2f64.powi(-24) * (1.5 + 8.0 * sup * 1.001);
    Some(R13 { label: c.label.clone(), applicable: true, d, bound, at, sup_xf: sup, distinct, bad, multi_word: 0 })
}

pub fn run_c13(tier: Tier, seed: u64) -> i32 {
    let rep = Report::new("C13", "model_checking", if tier == Tier::Quick { "quick" } else { "thorough" }, seed);
    let fams = ["Cauchy", "Pareto", "Weibull", "Gumbel", "Frechet", "Triangular"];
    let cases: Vec<Case> = all_cases(tier, seed).into_iter().filter(|c| c.fty == "f32" && fams.contains(&c.family) && c.pdf.is_some() && c.in_law).collect();
    let res: Vec<R13> = cases.par_iter().filter_map(one).collect();
    let mut execs = 0u64;
    let mut distinct = 0u64;
    let mut samples = vec![];
    let mut na = 0;
    for r in &res {
        execs += 1 << 24;
        distinct += r.distinct as u64;
        if !r.applicable {
            na += 1;
            samples.push(json!({"case": r.label, "not_applicable": format!("{} of the 2^24 executions consumed more than one word", r.multi_word)}));
            continue;
        }
        samples.push(json!({"case": r.label, "kolmogorov_distance": r.d, "bound": r.bound, "ratio": r.d / r.bound, "sup_abs_x_f": r.sup_xf, "distinct_outputs": r.distinct, "attained_at": r.at}));
        if r.d > r.bound {
            rep.violation(format!("{}|ks|{}", r.label.split('<').next().unwrap(), r.label), format!("{}: exact induced law of the 2^24 first-draw values is at Kolmogorov distance {:.3e} from the documented CDF (attained at {:e}); resolution bound {:.3e}", r.label, r.d, r.at, r.bound), json!({"case": r.label, "distance": r.d, "bound": r.bound, "at": r.at}));
        }
        if let Some((w, what, v)) = &r.bad {
            rep.violation(format!("{}|support|{}|{}", r.label.split('<').next().unwrap(), what.chars().take(40).collect::<String>(), r.label), format!("{}: first word {:#018x} gives {} (value {:e})", r.label, w, what, v), json!({"case": r.label, "script_words": hex_words(&[*w])}));
        }
    }
    samples.sort_by(|a, b| b["ratio"].as_f64().unwrap_or(0.0).partial_cmp(&a["ratio"].as_f64().unwrap_or(0.0)).unwrap());
    rep.set("states", json!(execs));
    rep.set("transitions", json!(execs));
    rep.set("traces_validated_against_impl", json!(execs));
    rep.set("evaluations", json!(execs));
    rep.set("distinct_nontrivial", json!(distinct));
    rep.set("rule", json!("every one of the 2^24 top-bit patterns of the first next_u32 request, for each f32 case of the six single-draw families; distinct = distinct output values"));
    rep.set("cases", json!(res.len()));
    rep.set("cases_not_applicable_multi_word", json!(na));
    rep.set("exhaustive", json!(true));
    rep.set("samples", json!(samples.into_iter().take(16).collect::<Vec<_>>()));
    rep.assume("next_u32 is served from the top 32 bits of the script word; bits below the 24 used by the f32 conversions are fixed (their irrelevance is what the single-word check establishes: every execution consumed exactly one word)");
    rep.finish()
}
