//! C07: location / scale parameters act as exact affine maps on a fixed RNG stream (paired executions).

use crate::cases::{Tier, ulp_of};
use crate::dev::lambda_words;
use crate::exec::{Outcome, run_cont};
use crate::report::{Report, hex_words};
use crate::rng::SplitMix;
use crate::sampler::{Sampler, Sc};
use rand_distr::*;
use serde_json::json;
use std::sync::Arc;

type Mk = Box<dyn Fn(f64, f64) -> Option<Box<dyn Sampler>> + Send + Sync>;

struct Fam {
    name: String,
    is32: bool,
    /// canonical (loc, scale)
    canon: (f64, f64),
    mk: Mk,
    /// how the parameters map the canonical sample: 0 affine loc + scale*x0, 1 log-space affine, 2 affine image of [0,1]: loc + scale*x0 with (min,max) = (loc, loc+scale)
    kind: u8,
    uses_loc: bool,
    allow_neg_scale: bool,
}

fn sc<D: rand::distr::Distribution<T> + Clone + PartialEq + std::fmt::Debug + Send + Sync + 'static, T: crate::sampler::Out>(d: Option<D>) -> Option<Box<dyn Sampler>> {
    d.map(|d| Box::new(Sc::new(d, Arc::new(|_x: T| None))) as Box<dyn Sampler>)
}

macro_rules! fams_for {
    ($v:ident, $F:ty, $tn:expr, $is32:expr) => {{
        type F = $F;
        let nm = |s: &str| format!("{}<{}>", s, $tn);
        $v.push(Fam { name: nm("Normal"), is32: $is32, canon: (0.0, 1.0), kind: 0, uses_loc: true, allow_neg_scale: true, mk: Box::new(|l, s| sc::<_, F>(Normal::<F>::new(l as F, s as F).ok())) });
        $v.push(Fam { name: nm("Cauchy"), is32: $is32, canon: (0.0, 1.0), kind: 0, uses_loc: true, allow_neg_scale: false, mk: Box::new(|l, s| sc::<_, F>(Cauchy::<F>::new(l as F, s as F).ok())) });
        $v.push(Fam { name: nm("Gumbel"), is32: $is32, canon: (0.0, 1.0), kind: 0, uses_loc: true, allow_neg_scale: false, mk: Box::new(|l, s| sc::<_, F>(Gumbel::<F>::new(l as F, s as F).ok())) });
        for &a in &[1.0, 0.5, 10.0] {
            $v.push(Fam { name: format!("Frechet<{}>(shape={a})", $tn), is32: $is32, canon: (0.0, 1.0), kind: 0, uses_loc: true, allow_neg_scale: false, mk: Box::new(move |l, s| sc::<_, F>(Frechet::<F>::new(l as F, s as F, a as F).ok())) });
        }
        for &a in &[0.0, 1.0, -1.0, 0.5, -5.0] {
            $v.push(Fam { name: format!("SkewNormal<{}>(shape={a})", $tn), is32: $is32, canon: (0.0, 1.0), kind: 0, uses_loc: true, allow_neg_scale: false, mk: Box::new(move |l, s| sc::<_, F>(SkewNormal::<F>::new(l as F, s as F, a as F).ok())) });
        }
        $v.push(Fam { name: nm("Exp"), is32: $is32, canon: (0.0, 1.0), kind: 0, uses_loc: false, allow_neg_scale: false, mk: Box::new(|_l, s| sc::<_, F>(Exp::<F>::new((1.0 / s) as F).ok())) });
        for &k in &[0.3, 1.0, 2.5, 100.0] {
            $v.push(Fam { name: format!("Gamma<{}>(shape={k})", $tn), is32: $is32, canon: (0.0, 1.0), kind: 0, uses_loc: false, allow_neg_scale: false, mk: Box::new(move |_l, s| sc::<_, F>(Gamma::<F>::new(k as F, s as F).ok())) });
        }
        for &k in &[1.0, 0.5, 10.0] {
            $v.push(Fam { name: format!("Weibull<{}>(shape={k})", $tn), is32: $is32, canon: (0.0, 1.0), kind: 0, uses_loc: false, allow_neg_scale: false, mk: Box::new(move |_l, s| sc::<_, F>(Weibull::<F>::new(s as F, k as F).ok())) });
            $v.push(Fam { name: format!("Pareto<{}>(shape={k})", $tn), is32: $is32, canon: (0.0, 1.0), kind: 0, uses_loc: false, allow_neg_scale: false, mk: Box::new(move |_l, s| sc::<_, F>(Pareto::<F>::new(s as F, k as F).ok())) });
        }
        for &(m, l0) in &[(1.0, 1.0), (1.0, 0.1), (20.0, 2.0)] {
            // IG(c mu, c lambda) = c IG(mu, lambda)
            $v.push(Fam { name: format!("InverseGaussian<{}>(mean={m},shape={l0})", $tn), is32: $is32, canon: (0.0, 1.0), kind: 0, uses_loc: false, allow_neg_scale: false, mk: Box::new(move |_l, s| sc::<_, F>(InverseGaussian::<F>::new((m * s) as F, (l0 * s) as F).ok())) });
        }
        $v.push(Fam { name: nm("LogNormal"), is32: $is32, canon: (0.0, 1.0), kind: 1, uses_loc: true, allow_neg_scale: true, mk: Box::new(|l, s| sc::<_, F>(LogNormal::<F>::new(l as F, s as F).ok())) });
        for &m0 in &[0.0, 0.3, 0.5, 1.0] {
            $v.push(Fam { name: format!("Triangular<{}>(mode at {m0})", $tn), is32: $is32, canon: (0.0, 1.0), kind: 2, uses_loc: true, allow_neg_scale: false, mk: Box::new(move |l, s| sc::<_, F>(Triangular::<F>::new(l as F, (l + s) as F, (l + s * m0) as F).ok())) });
            for &sh in &[1.0, 4.0] {
                $v.push(Fam { name: format!("Pert<{}>(mode at {m0}, shape {sh})", $tn), is32: $is32, canon: (0.0, 1.0), kind: 2, uses_loc: true, allow_neg_scale: false, mk: Box::new(move |l, s| sc::<_, F>(Pert::<F>::new(l as F, (l + s) as F).with_shape(sh as F).with_mode((l + s * m0) as F).ok())) });
            }
        }
    }};
}

pub fn run(tier: Tier, seed: u64) -> i32 {
    let rep = Report::new("C07", "fault_enumeration", if tier == Tier::Quick { "quick" } else { "thorough" }, seed);
    let mut fams: Vec<Fam> = vec![];
    fams_for!(fams, f64, "f64", false);
    fams_for!(fams, f32, "f32", true);
    let lam = lambda_words();
    let seeds: Vec<u64> = (0..if tier == Tier::Quick { 4 } else { 16 }).map(|i| seed * 1000 + i).collect();
    let npos = if tier == Tier::Quick { 3 } else { 6 };
    let scales = [1.0 / 1024.0, 0.5, 1.0, 3.0, 1024.0];
    let mut evals = 0u64;
    let mut pairs_nontrivial = std::collections::BTreeSet::new();
    for f in &fams {
        let locs: Vec<f64> = if !f.uses_loc { vec![0.0] } else if f.is32 { vec![0.0, 1.0, -1.0, 37.5, -37.5, 1e4, -1e4] } else { vec![0.0, 1.0, -1.0, 37.5, -37.5, 1e6, -1e6] };
        let mut scs: Vec<f64> = scales.to_vec();
        if f.allow_neg_scale { scs.push(-2.0); }
        if f.name.starts_with("InverseGaussian") {
            // IG(c mean, c shape) = c IG(mean, shape) must also hold for tiny c
            if f.is32 { scs.extend_from_slice(&[2f64.powi(-26), 2f64.powi(-60)]); } else { scs.extend_from_slice(&[2f64.powi(-60), 2f64.powi(-300)]); }
        }
        if f.kind == 2 {
            // supports far narrower than the float type's epsilon (only representable next to 0; other locations are
            // refused by the constructor): still an exact power-of-two image of the canonical [0, 1] case
            if f.is32 { scs.extend_from_slice(&[2f64.powi(-26), 2f64.powi(-40)]); } else { scs.extend_from_slice(&[2f64.powi(-60), 2f64.powi(-300)]); }
        }
        if f.kind == 0 && !f.name.starts_with("InverseGaussian") {
            // scales next to the ends of the float range: the map must stay finite whenever its exact value is
            if f.is32 { scs.extend_from_slice(&[2f64.powi(-100), 2f64.powi(126)]); } else { scs.extend_from_slice(&[2f64.powi(-1000), 2f64.powi(1022)]); }
        }
        let canon = match (f.mk)(f.canon.0, f.canon.1) { Some(c) => c, None => continue };
        for &loc in &locs {
            for &scale in &scs {
                if f.kind == 2 && (loc.abs() >= 1e4 && scale < 1.0) { continue; } // range below the resolution of the end points: not an affine image in floating point
                let d = match (f.mk)(loc, scale) { Some(d) => d, None => continue };
                for &s in &seeds {
                    for pos in 0..npos {
                        for wi in 0..=lam.len() {
                            if wi == lam.len() && pos > 0 { continue; }
                            let mut sm = SplitMix::seeded(s);
                            let mut script: Vec<u64> = (0..=pos).map(|_| sm.next()).collect();
                            if wi < lam.len() { script[pos] = lam[wi]; }
                            let e0 = run_cont(&*canon, &script, sm);
                            let e1 = run_cont(&*d, &script, sm);
                            evals += 2;
                            let (x0, x) = match (&e0.out, &e1.out) {
                                (Outcome::Done(a), Outcome::Done(b)) => (a.v, b.v),
                                _ => continue, // panics / caps are C03 / C05 matters
                            };
                            if x0.is_finite() && !x.is_finite() && f.kind == 0 {
                                let is32 = f.is32;
                                let e = loc + scale * x0;
                                let lim = if is32 { f32::MAX as f64 } else { f64::MAX };
                                if e.is_finite() && e.abs() < lim / 4.0 {
                                    rep.violation(format!("{}|overflow|scale={}", f.name, if scale > 1e30 { "huge" } else { "other" }), format!("{} with location {loc}, scale {scale:e} returned {x:e} although the affine image {e:e} of the canonical sample {x0:e} is finite", f.name),
                                        json!({"family": f.name, "location": loc, "scale": scale, "script_words": hex_words(&script), "base_seed": s}));
                                }
                                continue;
                            }
                            if !x0.is_finite() || !x.is_finite() { continue; } // non-finite samples are a C03 matter (known findings)
                            let minpos = if f.is32 { f32::MIN_POSITIVE as f64 } else { f64::MIN_POSITIVE };
                            if f.kind == 1 && (x < minpos || x0 < minpos) { continue; } // underflow region of exp: outside envelope E
                            let is32 = f.is32;
                            let r = |y: f64| if is32 { (y as f32) as f64 } else { y };
                            let (expect, tol) = match f.kind {
                                0 | 2 => {
                                    let sx = r(scale * x0);
                                    let e = r(loc + sx);
                                    let mut mag = loc.abs().max(sx.abs()).max(x.abs());
                                    if f.kind == 2 { mag = mag.max((loc + scale).abs()); }
                                    let eps = if is32 { f32::EPSILON as f64 } else { f64::EPSILON };
                                    let mut t = (if f.kind == 2 { 8.0 } else { 4.0 }) * ulp_of(mag, is32);
                                    if f.name.starts_with("Triangular") {
                                        // max - sqrt((range - f*range) * (max - mode)): the difference under the root carries an absolute error of
                                        // eps*range, amplified by 1 / distance to the nearer end point (conditioning of the documented formula)
                                        t += 2.0 * eps * scale.abs() / x0.min(1.0 - x0).max(eps);
                                    }
                                    if f.name.starts_with("InverseGaussian") {
                                        // mu + mu/(2 lambda) (y - sqrt(4 lambda y + y^2)) cancels for small samples: conditioning mu / x
                                        let mu = f.name.split("mean=").nth(1).and_then(|s| s.split(',').next()).and_then(|s| s.parse::<f64>().ok()).unwrap_or(1.0) * scale;
                                        // (the larger root mu^2 / x inherits the same relative error)
                                        let c = (mu / x.abs().max(1e-300)).max(x.abs() / mu).max(1.0);
                                        t = (64.0 * eps * x.abs() * c * c).min(0.25 * x.abs());
                                    }
                                    (e, t)
                                }
                                _ => {
                                    // log space: ln x = loc + scale * ln x0
                                    let lx0 = x0.ln();
                                    let e = loc + scale * lx0;
                                    let mag = loc.abs().max((scale * lx0).abs()).max(x.ln().abs()).max(1.0);
                                    let eps = if is32 { f32::EPSILON as f64 } else { f64::EPSILON };
                                    // ln x0 is known to eps (x0 is a rounded exp), which sigma amplifies
                                    (e.exp(), 8.0 * ulp_of(mag, is32) + (4.0 + 2.0 * scale.abs()) * eps)
                                }
                            };
                            let bad_val = if f.kind == 1 { (x.ln() - expect.ln()).abs() > tol } else { (x - expect).abs() > tol };
                            let bad_req = e0.requests != e1.requests;
                            if x != x0 { pairs_nontrivial.insert((f.name.clone(), (loc * 16.0) as i64, (scale * 1024.0) as i64)); }
                            if bad_val || bad_req {
                                let what = if bad_req { format!("consumed {} words instead of {}", e1.requests, e0.requests) } else { format!("returned {:e}, the affine image of the canonical sample {:e} is {:e} (tolerance {:.2e})", x, x0, expect, tol) };
                                rep.violation(format!("{}|{}|loc={}|scale={}", f.name, if bad_req { "words" } else { "value" }, if loc == 0.0 { "0" } else { "nonzero" }, if scale == 1.0 { "1" } else if scale < 0.0 { "neg" } else if scale > 100.0 || scale < 0.01 { "extreme" } else { "moderate" }),
                                    format!("{} with location {loc}, scale {scale} on the same stream {what}", f.name),
                                    json!({"family": f.name, "location": loc, "scale": scale, "script_words": hex_words(&script), "base_seed": s, "deviation_position": pos}));
                            }
                        }
                    }
                }
            }
        }
    }
    // from_zscore
    let zs64 = [0.0, -0.0, 1.0, -1.0, f64::MIN_POSITIVE, -f64::MIN_POSITIVE, 1e-300, -1e-300, 8.5, -8.5, 1e300, -1e300, f64::INFINITY, f64::NEG_INFINITY, f64::NAN, 0.3, -2.75];
    for &(m, s) in &[(0.0, 1.0), (2.5, 3.0), (-1e6, 0.001), (1.0, -2.0), (0.0, 0.0), (1e300, 1e300)] {
        for &z in &zs64 {
            evals += 2;
            let n = Normal::<f64>::new(m, s).unwrap();
            let got = n.from_zscore(z);
            let exp = m + s * z;
            let ok = (got.is_nan() && exp.is_nan()) || got == exp || (got - exp).abs() <= ulp_of(exp, false);
            if !ok {
                rep.violation("Normal<f64>::from_zscore|value".into(), format!("Normal::new({m},{s}).from_zscore({z:e}) = {got:e}, mean + std_dev*z = {exp:e}"), json!({"mean": m, "std_dev": s, "z": z}));
            }
            if s.abs() < 100.0 && m.abs() < 100.0 {
                let ln = LogNormal::<f64>::new(m, s).unwrap();
                let g = ln.from_zscore(z);
                let e = (m + s * z).exp();
                let ok = (g.is_nan() && e.is_nan()) || g == e || ((g - e) / e).abs() <= 4.0 * f64::EPSILON;
                if !ok {
                    rep.violation("LogNormal<f64>::from_zscore|value".into(), format!("LogNormal::new({m},{s}).from_zscore({z:e}) = {g:e}, exp(mu + sigma*z) = {e:e}"), json!({"mu": m, "sigma": s, "z": z}));
                }
            }
            if !(s as f32).is_finite() { continue; }
            let n32 = Normal::<f32>::new(m as f32, s as f32).unwrap();
            let g32 = n32.from_zscore(z as f32);
            let e32 = (m as f32) + (s as f32) * (z as f32);
            if !((g32.is_nan() && e32.is_nan()) || g32 == e32) {
                rep.violation("Normal<f32>::from_zscore|value".into(), format!("Normal::<f32>::new({m},{s}).from_zscore({z:e}) = {g32:e}, expected {e32:e}"), json!({"mean": m, "std_dev": s, "z": z}));
            }
        }
    }
    // LogNormal::from_zscore where exp(mu) alone is not representable but exp(mu + sigma*z) is
    for &(m, s, z) in &[(800.0f64, 10.0f64, -20.0f64), (-800.0, 10.0, 20.0), (720.0, 5.0, -4.0), (-745.0, 2.0, 30.0), (709.0, 1.0, 0.5), (-708.0, -3.0, -5.0), (300.0, 0.5, 2.0)] {
        evals += 1;
        let g = LogNormal::<f64>::new(m, s).unwrap().from_zscore(z);
        let a = m + s * z;
        let e = a.exp();
        let ok = g == e || ((g - e) / e).abs() <= 4.0 * f64::EPSILON * a.abs().max(1.0);
        if !ok {
            rep.violation("LogNormal<f64>::from_zscore|value".into(), format!("LogNormal::new({m},{s}).from_zscore({z:e}) = {g:e}, exp(mu + sigma*z) = {e:e}"), json!({"mu": m, "sigma": s, "z": z}));
        }
    }
    for &(m, s, z) in &[(95.0f32, 10.0f32, -1.5f32), (-100.0, 8.0, 2.5), (88.0, 1.0, -0.5), (-95.0, -10.0, -2.0), (40.0, 0.5, 2.0)] {
        evals += 1;
        let g = LogNormal::<f32>::new(m, s).unwrap().from_zscore(z);
        let a = m + s * z;
        let e = a.exp();
        let ok = g == e || ((g - e) / e).abs() <= 4.0 * f32::EPSILON * a.abs().max(1.0);
        if !ok {
            rep.violation("LogNormal<f32>::from_zscore|value".into(), format!("LogNormal::<f32>::new({m},{s}).from_zscore({z:e}) = {g:e}, exp(mu + sigma*z) = {e:e}"), json!({"mu": m, "sigma": s, "z": z}));
        }
    }
    rep.set("evaluations", json!(evals));
    rep.set("distinct_nontrivial", json!(pairs_nontrivial.len()));
    rep.set("rule", json!("paired executions (canonical parameters vs (location, scale)) on identical streams: base streams and every single deviation over the boundary lattice at the first positions; a (family, location, scale) triple whose samples differ from the canonical ones counts as one distinct non-trivial pair"));
    rep.set("families", json!(fams.len()));
    rep.set("exhaustive", json!(false));
    for f in fams.iter().step_by(7).take(8) {
        rep.sample(json!({"family": f.name, "relation": match f.kind { 0 => "x = loc + scale * x0 within 4 ulp, same number of words", 1 => "ln x = mu + sigma * ln x0 within 8 ulp, same number of words", _ => "x = min + (max-min) * x0 within 8 ulp, same number of words" }}));
    }
    rep.assume("non-finite samples and panics are judged by C03, not here");
    rep.finish()
}
