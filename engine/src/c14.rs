//! C14: sampling is a pure function of (distribution value, RNG state). Explicit-state exploration of all call
//! histories up to a depth over objects {A, clone of A, B built from equal parameters, sibling D (same family,
//! next parameter set), C of another family} and two cursors on one word sequence.

use crate::cases::{Case, Tier, all_cases};
use crate::exec::{Outcome, run_rng};
use crate::report::Report;
use crate::rng::{ScriptRng, base_words};
use crate::sampler::Sampler;
use rayon::prelude::*;
use serde_json::json;
use std::collections::HashMap;

struct FamResult {
    label: String,
    sequences: u64,
    calls: u64,
    states: u64,
    viol: Vec<(String, String)>,
    distinct_results: usize,
}

fn explore(case: &Case, sib: &Case, other: &Case, depth: usize, seed: u64) -> Option<FamResult> {
    // the deep exploration on one word sequence, then a shallower one on many sequences (a hidden dependence between
    // two objects typically needs particular words to make a difference)
    let mut r = explore_one(case, sib, other, depth, seed)?;
    let extra = if depth >= 5 { 96 } else { 32 };
    for k in 0..extra {
        if let Some(r2) = explore_one(case, sib, other, 3, seed.wrapping_mul(1000003).wrapping_add(k + 1)) {
            r.sequences += r2.sequences;
            r.calls += r2.calls;
            r.states += r2.states;
            r.distinct_results += r2.distinct_results;
            if r.viol.len() < 4 { r.viol.extend(r2.viol); }
        }
    }
    Some(r)
}

fn explore_one(case: &Case, sib: &Case, other: &Case, depth: usize, seed: u64) -> Option<FamResult> {
    let a = (case.build)()?;
    let a2 = a.clone_box();
    let b = (case.build)()?;
    let d = (sib.build)()?;
    let c = (other.build)()?;
    let objs: Vec<(&dyn Sampler, u8)> = vec![(&*a, 0), (&*a2, 0), (&*b, 0), (&*d, 1), (&*c, 2)];
    let words = base_words(seed, 6000);
    let dbg0: Vec<String> = objs.iter().map(|o| o.0.debug()).collect();
    let nops = objs.len() * 2;
    let mut table: HashMap<(u8, u32), (u64, u32, u8)> = HashMap::new();
    let mut viol = vec![];
    let mut seqs = 0u64;
    let mut calls = 0u64;
    let mut states = std::collections::HashSet::new();
    // all sequences of length `depth` (shorter ones are prefixes), executed from scratch
    let total = (nops as u64).pow(depth as u32);
    for code in 0..total {
        seqs += 1;
        let mut cur = [0u32, 0u32];
        let mut c2 = code;
        let mut hist = String::new();
        for step in 0..depth {
            let op = (c2 % nops as u64) as usize;
            c2 /= nops as u64;
            let (oi, si) = (op / 2, op % 2);
            let (obj, class) = objs[oi];
            let before = cur[si];
            if before as usize + 200 > words.len() { break; }
            let mut rng = ScriptRng::new(&words[before as usize..], 0);
            let out = run_rng(obj, &mut rng);
            calls += 1;
            if rng.overrun { break; }
            let after = before + rng.pos;
            cur[si] = after;
            let (bits, kind) = match out { Outcome::Done(s) => (s.bits, 0u8), Outcome::Panic(m) => (crate::report::fnv(m.as_bytes()), 1), Outcome::Cap => (0, 2) };
            hist.push_str(&format!("{}{} ", ["A", "A'", "B", "D", "C"][oi], si));
            states.insert((cur, class, step));
            match table.get(&(class, before)) {
                None => { table.insert((class, before), (bits, after, kind)); }
                Some(&(b0, a0, k0)) => {
                    if (b0, a0, k0) != (bits, after, kind) && viol.len() < 4 {
                        viol.push(("history-dependent".to_string(), format!("after history [{}] object {} at stream cursor {} returned bits {:#x} / cursor {} but another history gave {:#x} / {}", hist.trim(), ["A", "A'", "B", "D", "C"][oi], before, bits, after, b0, a0)));
                    }
                }
            }
            if obj.debug() != dbg0[oi] && viol.len() < 4 {
                viol.push(("mutated".to_string(), format!("Debug output of object {} changed after sampling (history [{}])", ["A", "A'", "B", "D", "C"][oi], hist.trim())));
            }
        }
    }
    // values that are not equal to themselves (NaN in a derived field: parameters in the overflow region, outside E)
    // cannot be judged for equality
    if a.eq_dyn(&*a) && !(a.eq_dyn(&*a2) && a.eq_dyn(&*b)) {
        viol.push(("equality".to_string(), "A, its clone and a second value built from equal parameters do not compare equal after the exploration".to_string()));
    }
    // values that compare equal are interchangeable: if A == sibling (another case of the same family and type), both
    // must return the same values and consume the same words on the same stream
    if a.eq_dyn(&*a) && a.eq_dyn(&*d) {
        let mut r1 = ScriptRng::new(&words, 0);
        let mut r2 = ScriptRng::new(&words, 0);
        for i in 0..16 {
            let (x, y) = (run_rng(&*a, &mut r1), run_rng(&*d, &mut r2));
            let same = match (&x, &y) {
                (Outcome::Done(p), Outcome::Done(q)) => p.v == q.v || (p.v.is_nan() && q.v.is_nan()) || p.bits == q.bits,
                (Outcome::Panic(_), Outcome::Panic(_)) | (Outcome::Cap, Outcome::Cap) => true,
                _ => false,
            };
            if !same || r1.pos != r2.pos {
                viol.push(("equal-but-different".to_string(), format!("{} == {} (PartialEq), but sample #{} on the same stream is {:?} (cursor {}) for the first and {:?} (cursor {}) for the second", dbg0[0], dbg0[3], i, x, r1.pos, y, r2.pos)));
                break;
            }
        }
    }
    // sample_iter vs repeated sample
    {
        let mut r1 = ScriptRng::new(&words, 0);
        let it = std::panic::catch_unwind(std::panic::AssertUnwindSafe(|| crate::exec::in_subject(|| a.iter_bits(&mut r1, 8))));
        let mut r2 = ScriptRng::new(&words, 0);
        let mut rep = vec![];
        for _ in 0..8 {
            if let Outcome::Done(s) = run_rng(&*a, &mut r2) { rep.push(s.bits) }
        }
        if let Ok(it) = it {
            if it != rep || r1.pos != r2.pos {
                viol.push(("sample_iter".to_string(), format!("sample_iter yields {:x?} (cursor {}), repeated sample() yields {:x?} (cursor {})", it, r1.pos, rep, r2.pos)));
            }
        }
    }
    let distinct: std::collections::HashSet<u64> = table.values().map(|v| v.0).collect();
    Some(FamResult { label: case.label.clone(), sequences: seqs, calls, states: states.len() as u64, viol, distinct_results: distinct.len() })
}

/// `x.sample(..)` / `x.sample_iter(..)` written with method syntax on the concrete type (where an inherent method
/// would take precedence over the trait's) must agree with the trait-qualified calls on the same stream.
fn concrete_calls(rep: &Report, seed: u64) -> u64 {
    use crate::sampler::{Out, VecOut};
    use rand_distr::weighted::{WeightedAliasIndex, WeightedTreeIndex};
    use rand_distr::*;
    let mut n = 0u64;
    macro_rules! chk {
        ($name:expr, $ty:ty, $x:expr, $bits:expr) => {{
            let x = $x;
            let words = base_words(seed ^ crate::report::fnv($name.as_bytes()), 64);
            let r = std::panic::catch_unwind(std::panic::AssertUnwindSafe(|| crate::exec::in_subject(|| {
                let bits = $bits;
                let mut r0 = ScriptRng::new(&words, 0);
                let a: Vec<u64> = (0..6).map(|_| { let v: $ty = Distribution::<$ty>::sample(&x, &mut r0); bits(&v) }).collect();
                let mut r1 = ScriptRng::new(&words, 0);
                let b: Vec<u64> = (0..6).map(|_| { let v: $ty = x.sample(&mut r1); bits(&v) }).collect();
                let mut r2 = ScriptRng::new(&words, 0);
                let c: Vec<u64> = x.clone().sample_iter(&mut r2).take(6).map(|v: $ty| bits(&v)).collect();
                (a, r0.pos, b, r1.pos, c, r2.pos)
            })));
            n += 3;
            if let Ok((a, pa, b, pb, c, pc)) = r {
                if a != b || pa != pb {
                    rep.violation(format!("{}|method-sample|{}", $name, $name), format!("{}: x.sample(rng) yields {:x?} (cursor {}), Distribution::sample(&x, rng) yields {:x?} (cursor {})", $name, b, pb, a, pa), json!({"case": $name, "kind": "method-sample"}));
                }
                if a != c || pa != pc {
                    rep.violation(format!("{}|method-sample_iter|{}", $name, $name), format!("{}: x.sample_iter(rng) yields {:x?} (cursor {}), repeated sample() yields {:x?} (cursor {})", $name, c, pc, a, pa), json!({"case": $name, "kind": "method-sample_iter"}));
                }
            }
        }};
    }
    let s64 = |v: &f64| Out::bits(*v);
    let s32 = |v: &f32| Out::bits(*v);
    let su = |v: &u64| *v;
    let sz = |v: &usize| *v as u64;
    chk!("StandardNormal<f64>", f64, StandardNormal, s64);
    chk!("StandardNormal<f32>", f32, StandardNormal, s32);
    chk!("Exp1<f64>", f64, Exp1, s64);
    chk!("Normal<f64>", f64, Normal::new(1.0f64, 2.0).unwrap(), s64);
    chk!("LogNormal<f64>", f64, LogNormal::new(0.5f64, 1.0).unwrap(), s64);
    chk!("Exp<f64>", f64, Exp::new(2.0f64).unwrap(), s64);
    chk!("Gamma<f64>", f64, Gamma::new(2.5f64, 3.0).unwrap(), s64);
    chk!("Gamma<f32>(small)", f32, Gamma::new(0.5f32, 3.0).unwrap(), s32);
    chk!("ChiSquared<f64>", f64, ChiSquared::new(3.0f64).unwrap(), s64);
    chk!("StudentT<f64>", f64, StudentT::new(4.0f64).unwrap(), s64);
    chk!("FisherF<f64>", f64, FisherF::new(3.0f64, 5.0).unwrap(), s64);
    chk!("Beta<f64>", f64, Beta::new(2.0f64, 3.0).unwrap(), s64);
    chk!("Beta<f32>(bc)", f32, Beta::new(0.5f32, 0.7).unwrap(), s32);
    chk!("Pert<f64>", f64, Pert::new(0.0f64, 5.0).with_mode(2.5).unwrap(), s64);
    chk!("Triangular<f64>", f64, Triangular::new(0.0f64, 5.0, 2.5).unwrap(), s64);
    chk!("Cauchy<f64>", f64, Cauchy::new(2.0f64, 5.0).unwrap(), s64);
    chk!("Pareto<f64>", f64, Pareto::new(1.0f64, 2.0).unwrap(), s64);
    chk!("Weibull<f64>", f64, Weibull::new(1.0f64, 2.0).unwrap(), s64);
    chk!("Gumbel<f64>", f64, Gumbel::new(0.0f64, 1.0).unwrap(), s64);
    chk!("Frechet<f64>", f64, Frechet::new(0.0f64, 1.0, 2.0).unwrap(), s64);
    chk!("SkewNormal<f64>", f64, SkewNormal::new(0.0f64, 1.0, 2.0).unwrap(), s64);
    chk!("InverseGaussian<f64>", f64, InverseGaussian::new(1.0f64, 2.0).unwrap(), s64);
    chk!("NormalInverseGaussian<f64>", f64, NormalInverseGaussian::new(2.0f64, 1.0).unwrap(), s64);
    chk!("Binomial(btpe)", u64, Binomial::new(200, 0.3).unwrap(), su);
    chk!("Binomial(binv)", u64, Binomial::new(20, 0.3).unwrap(), su);
    chk!("Poisson<f64>(knuth)", f64, Poisson::new(4.0f64).unwrap(), s64);
    chk!("Poisson<f64>(rejection)", f64, Poisson::new(40.0f64).unwrap(), s64);
    chk!("Geometric", u64, Geometric::new(0.3).unwrap(), su);
    chk!("StandardGeometric", u64, StandardGeometric, su);
    chk!("Hypergeometric(hin)", u64, Hypergeometric::new(60, 24, 7).unwrap(), su);
    chk!("Hypergeometric(h2pe)", u64, Hypergeometric::new(6000, 2400, 700).unwrap(), su);
    chk!("Zipf<f64>", f64, Zipf::new(10.0f64, 1.5).unwrap(), s64);
    chk!("Zeta<f64>", f64, Zeta::new(1.5f64).unwrap(), s64);
    chk!("UnitCircle<f64>", [f64; 2], UnitCircle, |v: &[f64; 2]| v.hash_bits());
    chk!("UnitDisc<f64>", [f64; 2], UnitDisc, |v: &[f64; 2]| v.hash_bits());
    chk!("UnitSphere<f64>", [f64; 3], UnitSphere, |v: &[f64; 3]| v.hash_bits());
    chk!("UnitBall<f32>", [f32; 3], UnitBall, |v: &[f32; 3]| v.hash_bits());
    chk!("Dirichlet<f64>(gamma)", Vec<f64>, rand_distr::multi::Dirichlet::new(&[1.0f64, 2.0, 3.0]).unwrap(), |v: &Vec<f64>| v.hash_bits());
    chk!("WeightedAliasIndex<u32>", usize, WeightedAliasIndex::new(vec![1u32, 2, 3, 0, 5]).unwrap(), sz);
    chk!("WeightedTreeIndex<u32>", usize, WeightedTreeIndex::new(vec![1u32, 2, 3, 0, 5]).unwrap(), sz);
    n
}

fn c14_cases(tier: Tier, seed: u64) -> Vec<Case> {
    let all = all_cases(tier, seed);
    // one distinct sampler per (family, type, parameters); skip the constant ones
    let mut seen = std::collections::BTreeSet::new();
    all.into_iter().filter(|c| seen.insert(format!("{}|{}|{:?}", c.family, c.fty, c.params))).filter(|c| !(c.family == "Dirichlet" && c.params.len() > 8)).collect()
}

const FIRST_TOUCH_ORDERS: u32 = 4;
const FIRST_TOUCH_SAMPLES: usize = 96;

fn first_touch_order(order: u32, n: usize) -> Vec<usize> {
    match order {
        0 => (0..n).collect(),
        1 => (0..n).rev().collect(),
        2 => (0..n).map(|i| (i + n / 2) % n).collect(),
        // every family's parameter sets from the back, families in forward order (blocks of 8 reversed)
        _ => (0..n).map(|i| { let b = i / 8 * 8; let e = (b + 8).min(n); b + (e - 1 - i) }).collect(),
    }
}

/// Child process of the first-touch sub-check: a fresh process samples every case, single-threaded, in the given
/// order, and prints one line per case with a hash of the values and cursors. State that lives in the process
/// (statics initialised by the first caller, lazily built tables) is the same for all histories explored inside one
/// process; only a different order of first use in a different process makes it visible.
pub fn child(order: u32, tier: Tier, seed: u64) -> i32 {
    let cases = c14_cases(tier, seed);
    let words = base_words(seed ^ 0xC14F, 4096);
    let deadline = std::time::Instant::now() + std::time::Duration::from_secs(if tier == Tier::Quick { 60 } else { 600 });
    for i in first_touch_order(order, cases.len()) {
        let Some(s) = (cases[i].build)() else { continue };
        let mut rng = ScriptRng::new(&words, 0x5EED);
        let mut h = 0xcbf29ce484222325u64;
        let mut mix = |x: u64| { h = (h ^ x).wrapping_mul(0x100000001b3); h = h.rotate_left(29); };
        let mut done = 0usize;
        for _ in 0..FIRST_TOUCH_SAMPLES {
            match run_rng(&*s, &mut rng) {
                Outcome::Done(v) => { mix(v.bits); mix(rng.pos as u64); }
                Outcome::Panic(m) => { mix(crate::report::fnv(m.as_bytes())); break; }
                Outcome::Cap => { mix(0xCA9); break; }
            }
            done += 1;
            if std::time::Instant::now() > deadline { break; }
        }
        if std::time::Instant::now() > deadline {
            // cases not reached in time are simply not compared (stated in the evidence)
            break;
        }
        println!("R {i} {h:016x} {done}");
    }
    println!("END");
    0
}

/// First-touch sub-check (parent side): run the child in several orders, compare per case.
fn first_touch(rep: &Report, tier: Tier, seed: u64) -> (u64, u64) {
    let exe = match std::env::current_exe() { Ok(e) => e, Err(_) => return (0, 0) };
    let cases = c14_cases(tier, seed);
    let tdir = format!("{}/.target", crate::report::VERIF_DIR);
    let _ = std::fs::create_dir_all(&tdir);
    let mut kids = vec![];
    for o in 0..FIRST_TOUCH_ORDERS {
        let path = format!("{tdir}/c14-first-touch-{o}-{}.txt", std::process::id());
        let f = match std::fs::File::create(&path) { Ok(f) => f, Err(_) => return (0, 0) };
        let k = std::process::Command::new(&exe).args(["c14-child", &o.to_string(), "--tier", if tier == Tier::Quick { "quick" } else { "thorough" }, "--seed", &seed.to_string()])
            .stdout(f).stderr(std::process::Stdio::null()).spawn();
        match k { Ok(k) => kids.push((o, path, k)), Err(_) => return (0, 0) }
    }
    let t0 = std::time::Instant::now();
    let limit = std::time::Duration::from_secs(if tier == Tier::Quick { 90 } else { 900 });
    let mut tables: Vec<(u32, HashMap<usize, String>, bool)> = vec![];
    for (o, path, mut k) in kids {
        loop {
            match k.try_wait() {
                Ok(Some(_)) => break,
                Ok(None) if t0.elapsed() > limit => { let _ = k.kill(); let _ = k.wait(); break; }
                Ok(None) => std::thread::sleep(std::time::Duration::from_millis(50)),
                Err(_) => break,
            }
        }
        let txt = std::fs::read_to_string(&path).unwrap_or_default();
        let _ = std::fs::remove_file(&path);
        let mut m = HashMap::new();
        let mut complete = false;
        for l in txt.lines() {
            let p: Vec<&str> = l.split_whitespace().collect();
            if p.len() == 4 && p[0] == "R" { if let Ok(i) = p[1].parse::<usize>() { m.insert(i, format!("{} {}", p[2], p[3])); } }
            if l == "END" { complete = true; }
        }
        tables.push((o, m, complete));
    }
    let mut compared = 0u64;
    let mut complete_orders = 0u64;
    for t in &tables { if t.2 { complete_orders += 1; } }
    if let Some((_, base, _)) = tables.first() {
        for (o, m, _) in tables.iter().skip(1) {
            for (i, h) in m {
                if let Some(h0) = base.get(i) {
                    compared += 1;
                    if h0 != h {
                        let label = cases.get(*i).map(|c| c.label.clone()).unwrap_or_default();
                        rep.violation(format!("{}|first-touch|{}", label.split('<').next().unwrap_or(""), label),
                            format!("{label}: the first {FIRST_TOUCH_SAMPLES} samples on a fixed stream differ between two fresh processes that sampled the other parameter sets in a different order before it (order 0: {h0}, order {o}: {h}): the result depends on process-wide state set by an earlier caller"),
                            json!({"case": label, "orders": [0, o], "hash_and_count_order0": h0, "hash_and_count_other": h, "how_to_replay": format!("rdverif c14-child 0 --seed {seed} | grep 'R {i} ' ; rdverif c14-child {o} --seed {seed} | grep 'R {i} '")}));
                    }
                }
            }
        }
    }
    (compared, complete_orders)
}

pub fn run(tier: Tier, seed: u64) -> i32 {
    let rep = Report::new("C14", "model_checking", if tier == Tier::Quick { "quick" } else { "thorough" }, seed);
    let concrete = concrete_calls(&rep, seed);
    rep.set("concrete_type_method_calls", json!(concrete));
    let (ft_compared, ft_orders) = first_touch(&rep, tier, seed);
    rep.set("first_touch_case_comparisons", json!(ft_compared));
    rep.set("first_touch_orders_completed", json!(ft_orders));
    rep.set("first_touch_rule", json!("4 fresh processes sample every case (96 samples on one fixed stream, single-threaded) in 4 different orders (forward, reverse, rotated by half, blocks of 8 reversed); per case the hash of values and cursors must agree between orders"));
    let cases = c14_cases(tier, seed);
    // selection: every case for the thorough tier, a spread covering every family and variant for the quick tier
    let step = if tier == Tier::Quick { 5 } else { 1 };
    let mut sel: Vec<usize> = vec![];
    let mut fam_seen = std::collections::BTreeSet::new();
    for (i, c) in cases.iter().enumerate() {
        if fam_seen.insert((c.family, c.fty)) || i % step == 0 || c.family == "Hypergeometric" {
            sel.push(i);
        }
    }
    let depth = if tier == Tier::Quick { 4 } else { 5 };
    let other_idx = cases.iter().position(|c| c.family == "StandardNormal").unwrap_or(0);
    let other2_idx = cases.iter().position(|c| c.family == "Exp1").unwrap_or(0);
    let results: Vec<FamResult> = sel.par_iter().filter_map(|&i| {
        let c = &cases[i];
        // sibling: the next case of the same family and type (wrapping around), else itself
        let sib = (1..cases.len()).map(|k| &cases[(i + k) % cases.len()]).find(|x| x.family == c.family && x.fty == c.fty).unwrap_or(c);
        let other = if c.family == "StandardNormal" || c.family == "Normal" { &cases[other2_idx] } else { &cases[other_idx] };
        explore(c, sib, other, depth, seed.wrapping_mul(77).wrapping_add(i as u64))
    }).collect();
    let (mut seqs, mut calls, mut states, mut distinct) = (0u64, 0u64, 0u64, 0u64);
    for r in &results {
        seqs += r.sequences;
        calls += r.calls;
        states += r.states;
        distinct += r.distinct_results as u64;
        for (k, w) in &r.viol {
            rep.violation(format!("{}|{}|{}", r.label.split('<').next().unwrap_or(""), k, r.label), format!("{}: {}", r.label, w), json!({"case": r.label, "kind": k, "detail": w}));
        }
    }
    rep.set("states", json!(states));
    rep.set("transitions", json!(calls));
    rep.set("traces_validated_against_impl", json!(seqs));
    rep.set("evaluations", json!(calls));
    rep.set("distinct_nontrivial", json!(distinct));
    rep.set("rule", json!("all call sequences of the stated depth over 5 objects x 2 stream cursors, each executed from scratch on the real objects; a state is (cursor pair, object class, step); distinct = distinct sample values observed"));
    rep.set("families_explored", json!(results.len()));
    rep.set("depth", json!(depth));
    rep.set("exhaustive", json!(true));
    rep.set("exhaustive_scope", json!("all histories up to the depth over the stated alphabet, for the selected parameter sets"));
    for r in results.iter().step_by(17).take(8) {
        rep.sample(json!({"case": r.label, "sequences": r.sequences, "calls": r.calls, "distinct_results": r.distinct_results, "example_history": "A0 D1 A'0 B1  (object, cursor) per call"}));
    }
    rep.assume("differential oracle between histories: no pristine reference run; a hidden global (cache, adaptive state) shows up as two histories reaching the same (parameters, cursor) with different results");
    rep.finish()
}
