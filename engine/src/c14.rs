//! C14: sampling is a pure function of (distribution value, RNG state). Explicit-state exploration of all call
//! histories up to a depth over objects {A, clone of A, B built from equal parameters, sibling D (same family,
//! next parameter set), C of another family} and two cursors on one word sequence.

use crate::cases::{Case, Tier, all_cases};
use crate::exec::{Outcome, run_rng};
use crate::report::Report;
use crate::rng::{ScriptRng, base_words};
use crate::sampler::Sampler;
use rayon::prelude::*;
use serde_json::json;
use std::collections::HashMap;

struct FamResult {
    label: String,
    sequences: u64,
    calls: u64,
    states: u64,
    viol: Vec<(String, String)>,
    distinct_results: usize,
}

fn explore(case: &Case, sib: &Case, other: &Case, depth: usize, seed: u64) -> Option<FamResult> {
    // the deep exploration on one word sequence, then a shallower one on many sequences (a hidden dependence between
    // two objects typically needs particular words to make a difference)
    let mut r = explore_one(case, sib, other, depth, seed)?;
    let extra = if depth >= 5 { 96 } else { 32 };
    for k in 0..extra {
        if let Some(r2) = explore_one(case, sib, other, 3, seed.wrapping_mul(1000003).wrapping_add(k + 1)) {
            r.sequences += r2.sequences;
            r.calls += r2.calls;
            r.states += r2.states;
            r.distinct_results += r2.distinct_results;
            if r.viol.len() < 4 { r.viol.extend(r2.viol); }
        }
    }
    Some(r)
}

fn explore_one(case: &Case, sib: &Case, other: &Case, depth: usize, seed: u64) -> Option<FamResult> {
    let a = (case.build)()?;
    let a2 = a.clone_box();
    let b = (case.build)()?;
    let d = (sib.build)()?;
    let c = (other.build)()?;
    let objs: Vec<(&dyn Sampler, u8)> = vec![(&*a, 0), (&*a2, 0), (&*b, 0), (&*d, 1), (&*c, 2)];
    let words = base_words(seed, 6000);
    let dbg0: Vec<String> = objs.iter().map(|o| o.0.debug()).collect();
    let nops = objs.len() * 2;
    let mut table: HashMap<(u8, u32), (u64, u32, u8)> = HashMap::new();
    let mut viol = vec![];
    let mut seqs = 0u64;
    let mut calls = 0u64;
    let mut states = std::collections::HashSet::new();
    // all sequences of length `depth` (shorter ones are prefixes), executed from scratch
    let total = (nops as u64).pow(depth as u32);
    for code in 0..total {
        seqs += 1;
        let mut cur = [0u32, 0u32];
        let mut c2 = code;
        let mut hist = String::new();
        for step in 0..depth {
            let op = (c2 % nops as u64) as usize;
            c2 /= nops as u64;
            let (oi, si) = (op / 2, op % 2);
            let (obj, class) = objs[oi];
            let before = cur[si];
            if before as usize + 200 > words.len() { break; }
            let mut rng = ScriptRng::new(&words[before as usize..], 0);
            let out = run_rng(obj, &mut rng);
            calls += 1;
            if rng.overrun { break; }
            let after = before + rng.pos;
            cur[si] = after;
            let (bits, kind) = match out { Outcome::Done(s) => (s.bits, 0u8), Outcome::Panic(m) => (crate::report::fnv(m.as_bytes()), 1), Outcome::Cap => (0, 2) };
            hist.push_str(&format!("{}{} ", ["A", "A'", "B", "D", "C"][oi], si));
            states.insert((cur, class, step));
            match table.get(&(class, before)) {
                None => { table.insert((class, before), (bits, after, kind)); }
                Some(&(b0, a0, k0)) => {
                    if (b0, a0, k0) != (bits, after, kind) && viol.len() < 4 {
                        viol.push(("history-dependent".to_string(), format!("after history [{}] object {} at stream cursor {} returned bits {:#x} / cursor {} but another history gave {:#x} / {}", hist.trim(), ["A", "A'", "B", "D", "C"][oi], before, bits, after, b0, a0)));
                    }
                }
            }
            if obj.debug() != dbg0[oi] && viol.len() < 4 {
                viol.push(("mutated".to_string(), format!("Debug output of object {} changed after sampling (history [{}])", ["A", "A'", "B", "D", "C"][oi], hist.trim())));
            }
        }
    }
    // values that are not equal to themselves (NaN in a derived field: parameters in the overflow region, outside E)
    // cannot be judged for equality
    if a.eq_dyn(&*a) && !(a.eq_dyn(&*a2) && a.eq_dyn(&*b)) {
        viol.push(("equality".to_string(), "A, its clone and a second value built from equal parameters do not compare equal after the exploration".to_string()));
    }
    // sample_iter vs repeated sample
    {
        let mut r1 = ScriptRng::new(&words, 0);
        let it = std::panic::catch_unwind(std::panic::AssertUnwindSafe(|| crate::exec::in_subject(|| a.iter_bits(&mut r1, 8))));
        let mut r2 = ScriptRng::new(&words, 0);
        let mut rep = vec![];
        for _ in 0..8 {
            if let Outcome::Done(s) = run_rng(&*a, &mut r2) { rep.push(s.bits) }
        }
        if let Ok(it) = it {
            if it != rep || r1.pos != r2.pos {
                viol.push(("sample_iter".to_string(), format!("sample_iter yields {:x?} (cursor {}), repeated sample() yields {:x?} (cursor {})", it, r1.pos, rep, r2.pos)));
            }
        }
    }
    let distinct: std::collections::HashSet<u64> = table.values().map(|v| v.0).collect();
    Some(FamResult { label: case.label.clone(), sequences: seqs, calls, states: states.len() as u64, viol, distinct_results: distinct.len() })
}

pub fn run(tier: Tier, seed: u64) -> i32 {
    let rep = Report::new("C14", "model_checking", if tier == Tier::Quick { "quick" } else { "thorough" }, seed);
    let all = all_cases(tier, seed);
    // one distinct sampler per (family, type, parameters); skip the constant ones
    let mut seen = std::collections::BTreeSet::new();
    let cases: Vec<Case> = all.into_iter().filter(|c| seen.insert(format!("{}|{}|{:?}", c.family, c.fty, c.params))).filter(|c| !(c.family == "Dirichlet" && c.params.len() > 8)).collect();
    // selection: every case for the thorough tier, a spread covering every family and variant for the quick tier
    let step = if tier == Tier::Quick { 5 } else { 1 };
    let mut sel: Vec<usize> = vec![];
    let mut fam_seen = std::collections::BTreeSet::new();
    for (i, c) in cases.iter().enumerate() {
        if fam_seen.insert((c.family, c.fty)) || i % step == 0 || c.family == "Hypergeometric" {
            sel.push(i);
        }
    }
    let depth = if tier == Tier::Quick { 4 } else { 5 };
    let other_idx = cases.iter().position(|c| c.family == "StandardNormal").unwrap_or(0);
    let other2_idx = cases.iter().position(|c| c.family == "Exp1").unwrap_or(0);
    let results: Vec<FamResult> = sel.par_iter().filter_map(|&i| {
        let c = &cases[i];
        // sibling: the next case of the same family and type (wrapping around), else itself
        let sib = (1..cases.len()).map(|k| &cases[(i + k) % cases.len()]).find(|x| x.family == c.family && x.fty == c.fty).unwrap_or(c);
        let other = if c.family == "StandardNormal" || c.family == "Normal" { &cases[other2_idx] } else { &cases[other_idx] };
        explore(c, sib, other, depth, seed.wrapping_mul(77).wrapping_add(i as u64))
    }).collect();
    let (mut seqs, mut calls, mut states, mut distinct) = (0u64, 0u64, 0u64, 0u64);
    for r in &results {
        seqs += r.sequences;
        calls += r.calls;
        states += r.states;
        distinct += r.distinct_results as u64;
        for (k, w) in &r.viol {
            rep.violation(format!("{}|{}|{}", r.label.split('<').next().unwrap_or(""), k, r.label), format!("{}: {}", r.label, w), json!({"case": r.label, "kind": k, "detail": w}));
        }
    }
    rep.set("states", json!(states));
    rep.set("transitions", json!(calls));
    rep.set("traces_validated_against_impl", json!(seqs));
    rep.set("evaluations", json!(calls));
    rep.set("distinct_nontrivial", json!(distinct));
    rep.set("rule", json!("all call sequences of the stated depth over 5 objects x 2 stream cursors, each executed from scratch on the real objects; a state is (cursor pair, object class, step); distinct = distinct sample values observed"));
    rep.set("families_explored", json!(results.len()));
    rep.set("depth", json!(depth));
    rep.set("exhaustive", json!(true));
    rep.set("exhaustive_scope", json!("all histories up to the depth over the stated alphabet, for the selected parameter sets"));
    for r in results.iter().step_by(17).take(8) {
        rep.sample(json!({"case": r.label, "sequences": r.sequences, "calls": r.calls, "distinct_results": r.distinct_results, "example_history": "A0 D1 A'0 B1  (object, cursor) per call"}));
    }
    rep.assume("differential oracle between histories: no pristine reference run; a hidden global (cache, adaptive state) shows up as two histories reaching the same (parameters, cursor) with different results");
    rep.finish()
}
