//! The scripted RNG: the only source of nondeterminism the samplers see.
//!
//! Request k (0-based, any width) consumes script word k: `next_u64` returns it,
//! `next_u32` returns its top 32 bits. Requests past the end of the script are
//! answered from a SplitMix64 continuation stream and set `overrun`.

use rand::rand_core::{Infallible, TryRng};

#[derive(Clone, Copy, Debug, PartialEq, Eq, Hash)]
pub struct SplitMix(pub u64);

impl SplitMix {
    #[inline]
    pub fn next(&mut self) -> u64 {
        self.0 = self.0.wrapping_add(0x9E37_79B9_7F4A_7C15);
        let mut z = self.0;
        z = (z ^ (z >> 30)).wrapping_mul(0xBF58_476D_1CE4_E5B9);
        z = (z ^ (z >> 27)).wrapping_mul(0x94D0_49BB_1331_11EB);
        z ^ (z >> 31)
    }
    pub fn seeded(seed: u64) -> Self {
        // decorrelate small seeds
        let mut s = SplitMix(seed ^ 0xD1B5_4A32_D192_ED03);
        s.next();
        s
    }
}

/// Payload of the panic raised when one call makes more than `cap` requests.
#[derive(Debug)]
pub struct WordCapExceeded;

pub const DEFAULT_CAP: u32 = 100_000;

pub struct ScriptRng<'a> {
    script: &'a [u64],
    pub pos: u32,
    pub cont: SplitMix,
    pub overrun: bool,
    pub cap: u32,
    /// primitive tag (hook H2) seen at the first unscripted request: 0 none, 1 normal, 2 exp
    pub over_tag: u8,
    /// the first unscripted request continues a primitive call that began in the scripted part
    pub over_mid: bool,
    last: (u8, u32),
    pub tags: bool,
}

impl<'a> ScriptRng<'a> {
    #[inline]
    pub fn new(script: &'a [u64], cont_seed: u64) -> Self {
        ScriptRng {
            script,
            pos: 0,
            cont: SplitMix::seeded(cont_seed),
            overrun: false,
            cap: DEFAULT_CAP,
            over_tag: 0,
            over_mid: false,
            last: (0, 0),
            tags: false,
        }
    }
    /// Script followed by an explicit continuation state (engine D: base stream with one word replaced).
    #[inline]
    pub fn with_cont(script: &'a [u64], cont: SplitMix) -> Self {
        let mut r = Self::new(script, 0);
        r.cont = cont;
        r
    }
    #[inline]
    pub fn with_tags(mut self) -> Self {
        self.tags = true;
        self
    }
    #[inline]
    pub fn requests(&self) -> u32 {
        self.pos
    }
    #[inline(always)]
    fn word(&mut self) -> u64 {
        let i = self.pos as usize;
        self.pos += 1;
        if i < self.script.len() {
            if self.tags && i + 1 == self.script.len() {
                self.last = prim_tag();
            }
            self.script[i]
        } else {
            if !self.overrun {
                self.overrun = true;
                if self.tags {
                    let cur = prim_tag();
                    self.over_tag = cur.0;
                    self.over_mid = cur.0 != 0 && i > 0 && cur == self.last;
                }
            }
            if self.pos > self.cap {
                std::panic::panic_any(WordCapExceeded);
            }
            self.cont.next()
        }
    }
}

#[inline]
pub fn prim_tag() -> (u8, u32) {
    rand_distr::verif_hooks::PRIM.with(|c| c.get())
}

impl<'a> TryRng for ScriptRng<'a> {
    type Error = Infallible;
    #[inline(always)]
    fn try_next_u32(&mut self) -> Result<u32, Infallible> {
        Ok((self.word() >> 32) as u32)
    }
    #[inline(always)]
    fn try_next_u64(&mut self) -> Result<u64, Infallible> {
        Ok(self.word())
    }
    fn try_fill_bytes(&mut self, dst: &mut [u8]) -> Result<(), Infallible> {
        for chunk in dst.chunks_mut(8) {
            let w = self.word().to_le_bytes();
            chunk.copy_from_slice(&w[..chunk.len()]);
        }
        Ok(())
    }
}

/// Materialise the first `n` words of the base stream with seed `s`.
pub fn base_words(seed: u64, n: usize) -> Vec<u64> {
    let mut sm = SplitMix::seeded(seed);
    (0..n).map(|_| sm.next()).collect()
}
