//! Engine D: deviation-bounded exploration. Default environment answer = SplitMix64 base stream;
//! a deviation replaces the answer at one request position by a word of the boundary lattice.

use crate::cases::{Case, Tier};
use crate::exec::{Outcome, run_cont};
use crate::pool::{Slot, Timeout, run_jobs};
use crate::report::{Report, hex_words};
use crate::rng::SplitMix;
use crate::sampler::Sampler;
use serde_json::json;
use std::collections::BTreeSet;
use std::sync::atomic::{AtomicU64, Ordering::Relaxed};
use std::sync::{Arc, Mutex};
use std::time::Duration;

/// The boundary lattice Λ (DESIGN.md §3.2).
pub fn lambda_words() -> Vec<u64> {
    let mut s: BTreeSet<u64> = BTreeSet::new();
    s.insert(0);
    s.insert(!0);
    for &k in &[8u32, 11, 12, 23, 24, 32, 40, 52, 53, 63] {
        let p = 1u64 << k;
        s.insert(p);
        s.insert(p - 1);
        s.insert(p + 1);
        s.insert(!p);
    }
    // top-bit patterns of the uniform conversions (53/52 bits of a u64, 24/23 bits of the top u32)
    for &nb in &[53u32, 52, 24, 23, 32] {
        let sh = 64 - nb;
        let ones = (!0u64) >> sh;
        let pats = [ones, 0, 1u64 << (nb - 1), (1u64 << (nb - 1)) - 1, 1, ones - 1, (1u64 << (nb - 1)) + 1, 1u64 << (nb - 2), 3u64 << (nb - 2)];
        let low_mask = if sh == 0 { 0 } else { (!0u64) >> nb };
        for &p in &pats {
            let top = p << sh;
            for &fill in &[0u64, low_mask, 0x01, 0xFF, low_mask & !0xFF, (low_mask & !0xFF) | 0x01] {
                s.insert(top | (fill & low_mask));
            }
        }
    }
    // ziggurat: layer = low byte, u = bits >> 12
    for &layer in &[0u64, 1, 2, 127, 128, 254, 255] {
        let ones52 = (!0u64) >> 12;
        for &ub in &[0u64, ones52, 1u64 << 51, (1u64 << 51) - 1, 1, ones52 - 1, 1u64 << 50, 3u64 << 50] {
            s.insert((ub << 12) | layer);
            s.insert((ub << 12) | layer | 0xF00);
        }
    }
    s.into_iter().collect()
}

pub struct DevConfig {
    pub seeds: Vec<u64>,
    pub positions: usize,
    pub f32_sweep_positions: usize,
    pub f32_sweep_max_params: usize,
    pub per_call_limit: Duration,
    pub word_cap: u32,
}

impl DevConfig {
    pub fn new(tier: Tier, seed: u64) -> Self {
        let b = if tier == Tier::Quick { 4 } else { 32 };
        DevConfig {
            seeds: (0..b).map(|i| seed.wrapping_mul(1000).wrapping_add(i)).collect(),
            positions: if tier == Tier::Quick { 8 } else { 16 },
            f32_sweep_positions: if tier == Tier::Quick { 1 } else { 3 },
            f32_sweep_max_params: if tier == Tier::Quick { 4 } else { 64 },
            per_call_limit: Duration::from_millis(2000),
            word_cap: crate::rng::DEFAULT_CAP,
        }
    }
}

#[derive(Default)]
pub struct DevStats {
    pub executions: AtomicU64,
    pub max_requests: AtomicU64,
    pub total_requests: AtomicU64,
    pub base_runs: AtomicU64,
    pub panics: AtomicU64,
    pub bad: AtomicU64,
    pub caps: AtomicU64,
    pub distinct_outputs: Mutex<BTreeSet<u64>>,
    pub case_ns: Mutex<std::collections::BTreeMap<usize, u64>>,
}

/// What a deviation job found: (kind, detail, script, position)
#[derive(Clone, Debug)]
pub struct DevFinding {
    pub case: usize,
    pub kind: &'static str, // "panic" | "support" | "cap" | "timeout" | "ctor-panic" | "ctor-timeout"
    pub detail: String,
    pub seed: u64,
    pub pos: usize,
    pub word: u64,
    pub script: Vec<u64>,
    pub requests: u32,
}

fn base_script(seed: u64, pos: usize, word: Option<u64>) -> (Vec<u64>, SplitMix) {
    let mut sm = SplitMix::seeded(seed);
    let mut v: Vec<u64> = (0..=pos).map(|_| sm.next()).collect();
    if let Some(w) = word {
        v[pos] = w;
    }
    (v, sm)
}

/// Word class used in finding keys: the coarsest applicable label of the deviation word, so that a
/// finding is identified by *how* it is reached (which uniform conversion is driven to which extreme).
pub fn word_class(w: u64) -> String {
    let top24 = w >> 40;
    let top23 = w >> 41;
    let zu = w >> 12;
    if top24 == (1 << 24) - 1 {
        "top24=max".into()
    } else if top24 == 0 {
        "top24=0".into()
    } else if top23 == (1 << 23) - 1 {
        "top23=max".into()
    } else if zu == 1u64 << 51 {
        "zig-u=0".into()
    } else if top24 == 1 << 23 {
        "top24=half".into()
    } else if top24 == (1 << 23) - 1 {
        "top24=half-1".into()
    } else {
        format!("0x{w:016x}")
    }
}

struct Defer<F: FnOnce()>(Option<F>);
impl<F: FnOnce()> Drop for Defer<F> {
    fn drop(&mut self) {
        if let Some(f) = self.0.take() { f() }
    }
}

pub struct DevResult {
    pub findings: Vec<DevFinding>,
    pub stats: Arc<DevStats>,
    pub n_jobs: usize,
}

/// Run the 0- and 1-deviation exploration over `cases`.
pub fn sweep(cases: Arc<Vec<Case>>, cfg: Arc<DevConfig>, f32_full: bool) -> DevResult {
    let lam = Arc::new(lambda_words());
    let stats = Arc::new(DevStats::default());
    let findings: Arc<Mutex<Vec<DevFinding>>> = Arc::new(Mutex::new(vec![]));
    // jobs: (case, seed index, position) ; position == usize::MAX => f32 full sweep at pos 0..k
    let mut jobs: Vec<(usize, usize, usize)> = vec![];
    for ci in 0..cases.len() {
        for si in 0..cfg.seeds.len() {
            for p in 0..cfg.positions {
                jobs.push((ci, si, p));
            }
        }
        if f32_full && cases[ci].fty == "f32" && cases[ci].params.len() <= cfg.f32_sweep_max_params {
            for p in 0..cfg.f32_sweep_positions {
                for chunk in 0..16 {
                    jobs.push((ci, chunk, 1000 + p));
                }
            }
        }
    }
    let jobs = Arc::new(jobs);
    let n_jobs = jobs.len();
    let (cases2, cfg2, lam2, stats2, findings2, jobs2) = (cases.clone(), cfg.clone(), lam.clone(), stats.clone(), findings.clone(), jobs.clone());
    let f = move |j: usize, slot: &Slot| {
        let (ci, si, p) = jobs2[j];
        let case = &cases2[ci];
        let t_job = std::time::Instant::now();
        let stats3 = stats2.clone();
        let _timer = Defer(Some(move || { *stats3.case_ns.lock().unwrap().entry(ci).or_insert(0) += t_job.elapsed().as_nanos() as u64; }));
        slot.begin(u64::MAX, 0); // construction
        let s: Box<dyn Sampler> = match std::panic::catch_unwind(std::panic::AssertUnwindSafe(|| crate::exec::in_subject(|| (case.build)()))) {
            Ok(Some(s)) => s,
            Ok(None) => return,
            Err(_) => {
                if si == 0 && p == 0 {
                    findings2.lock().unwrap().push(DevFinding { case: ci, kind: "ctor-panic", detail: crate::exec::last_panic(), seed: 0, pos: 0, word: 0, script: vec![], requests: 0 });
                }
                return;
            }
        };
        let seed = if p >= 1000 { cfg2.seeds[0] } else { cfg2.seeds[si] };
        let mut local_out: Vec<u64> = vec![];
        let (mut l_exec, mut l_maxreq) = (0u64, 0u64);
        let mut check = |script: &[u64], cont: SplitMix, pos: usize, word: u64, is_base: bool| {
            let e = run_cont(&*s, script, cont);
            l_exec += 1;
            l_maxreq = l_maxreq.max(e.requests as u64);
            if is_base {
                stats2.total_requests.fetch_add(e.requests as u64, Relaxed);
                stats2.base_runs.fetch_add(1, Relaxed);
            }
            let (kind, detail): (&'static str, String) = match &e.out {
                Outcome::Done(sm) => {
                    if local_out.len() < 64 { local_out.push(sm.bits); }
                    match sm.bad {
                        Some(b) => ("support", format!("{b} (value {:e})", sm.v)),
                        None => return,
                    }
                }
                Outcome::Panic(m) => ("panic", m.clone()),
                Outcome::Cap => ("cap", format!("more than {} words requested in one call", cfg2.word_cap)),
            };
            match kind { "panic" => &stats2.panics, "support" => &stats2.bad, _ => &stats2.caps }.fetch_add(1, Relaxed);
            // replay twice before it counts
            let e2 = run_cont(&*s, script, cont);
            let e3 = run_cont(&*s, script, cont);
            let same = |a: &Outcome, b: &Outcome| match (a, b) {
                (Outcome::Done(x), Outcome::Done(y)) => x.bits == y.bits && x.bad == y.bad,
                (Outcome::Panic(x), Outcome::Panic(y)) => x == y,
                (Outcome::Cap, Outcome::Cap) => true,
                _ => false,
            };
            if !same(&e2.out, &e.out) || !same(&e3.out, &e.out) {
                eprintln!("machinery error: nondeterministic replay for {} script {:?}", case.label, hex_words(script));
                std::process::exit(2);
            }
            let mut f = findings2.lock().unwrap();
            if f.len() < 200_000 {
                f.push(DevFinding { case: ci, kind, detail, seed, pos, word, script: script.to_vec(), requests: e.requests });
            }
        };
        if p >= 1000 {
            // all 2^24 top-bit patterns of one f32 draw at position p-1000, other words from base stream
            let pos = p - 1000;
            let (mut script, cont) = base_script(seed, pos, None);
            let low = script[pos] & ((1u64 << 40) - 1);
            for hi in ((si as u64) << 20)..(((si as u64) + 1) << 20) {
                if hi & 0xFFF == 0 {
                    slot.begin(hi << 40, pos as u64);
                    if slot.is_abandoned() { return; }
                }
                let w = (hi << 40) | low;
                script[pos] = w;
                check(&script, cont, pos, w, false);
            }
        } else {
            if p == 0 {
                // 0 deviations: the base stream itself
                let (script, cont) = base_script(seed, 0, None);
                slot.begin(script[0], 0);
                check(&script, cont, 0, script[0], true);
            }
            let (mut script, cont) = base_script(seed, p, None);
            for &w in lam2.iter() {
                slot.begin(w, p as u64);
                if slot.is_abandoned() { return; }
                script[p] = w;
                check(&script, cont, p, w, false);
            }
        }
        stats2.executions.fetch_add(l_exec, Relaxed);
        stats2.max_requests.fetch_max(l_maxreq, Relaxed);
        let mut d = stats2.distinct_outputs.lock().unwrap();
        if d.len() < 1_000_000 {
            d.extend(local_out);
        }
    };
    let touts: Vec<Timeout> = run_jobs(n_jobs, crate::pool::ncpu(), cfg.per_call_limit, Arc::new(f));
    let mut fs = findings.lock().unwrap().clone();
    // each confirmation of a call that never returns costs four time limits and one more busy core: confirm the
    // first few, list the others only if every confirmation attempted so far succeeded
    let (mut tried, mut confirmed_n) = (0usize, 0usize);
    for t in touts {
        let (ci, si, p) = jobs[t.job];
        let seed = if p >= 1000 { cfg.seeds[0] } else { cfg.seeds[si] };
        if t.aux == u64::MAX && t.aux2 == 0 {
            fs.push(DevFinding { case: ci, kind: "ctor-timeout", detail: "constructor exceeded the per-call time limit".into(), seed, pos: 0, word: 0, script: vec![], requests: 0 });
        } else {
            let pos = if p >= 1000 { p - 1000 } else { p };
            let (script, cont) = base_script(seed, pos, Some(t.aux));
            if tried >= 4 {
                if confirmed_n == tried {
                    fs.push(DevFinding { case: ci, kind: "timeout", detail: format!("one sample() call ran longer than {:?}", cfg.per_call_limit), seed, pos, word: t.aux, script, requests: 0 });
                }
                continue;
            }
            tried += 1;
            // confirm on a fresh thread with its own clock (a descheduled worker on a loaded machine must not count)
            let case = cases[ci].clone();
            let sc = script.clone();
            let (tx, rx) = std::sync::mpsc::channel();
            std::thread::spawn(move || {
                crate::exec::set_managed(true);
                let t0 = std::time::Instant::now();
                if let Some(s) = (case.build)() {
                    let _ = run_cont(&*s, &sc, cont);
                }
                let _ = tx.send(t0.elapsed());
            });
            let confirmed = match rx.recv_timeout(cfg.per_call_limit * 4) {
                Ok(el) => el > cfg.per_call_limit,
                Err(_) => true,
            };
            if confirmed {
                confirmed_n += 1;
                fs.push(DevFinding { case: ci, kind: "timeout", detail: format!("one sample() call ran longer than {:?}", cfg.per_call_limit), seed, pos, word: t.aux, script, requests: 0 });
            }
        }
    }
    DevResult { findings: fs, stats, n_jobs }
}

pub fn report_finding(rep: &Report, cases: &[Case], f: &DevFinding) {
    let c = &cases[f.case];
    // normalise panic text: keep message + location
    let what = format!("{} {}: {} [{}; deviation word {} at request {} of base seed {}]", c.label, f.kind, f.detail, word_class(f.word), format_args!("0x{:016x}", f.word), f.pos, f.seed);
    let detail_key: String = f.detail.chars().take(60).collect();
    let key = format!("{}|{}|{}|{}|{}|{}", c.family, f.kind, detail_key.split(" (value").next().unwrap_or(""), c.fty, c.label, word_class(f.word));
    rep.violation(key, what, json!({
        "case": c.label, "family": c.family, "float_type": c.fty, "params": c.params,
        "kind": f.kind, "detail": f.detail,
        "script_words": hex_words(&f.script), "continuation": {"base_seed": f.seed, "resumes_after": f.script.len()},
        "deviation_position": f.pos, "requests": f.requests,
        "replay_test": replay_test_snippet(),
    }));
}

pub fn replay_test_snippet() -> &'static str {
    "struct Words(Vec<u64>, usize, u64); /* script, cursor, splitmix state */ impl rand::TryRng for Words { type Error = rand::rand_core::Infallible; \
fn try_next_u64(&mut self) -> Result<u64, Self::Error> { let i = self.1; self.1 += 1; Ok(if i < self.0.len() { self.0[i] } else { self.2 = self.2.wrapping_add(0x9E3779B97F4A7C15); let mut z = self.2; z = (z ^ (z >> 30)).wrapping_mul(0xBF58476D1CE4E5B9); z = (z ^ (z >> 27)).wrapping_mul(0x94D049BB133111EB); z ^ (z >> 31) }) } \
fn try_next_u32(&mut self) -> Result<u32, Self::Error> { Ok((self.try_next_u64()? >> 32) as u32) } fn try_fill_bytes(&mut self, _: &mut [u8]) -> Result<(), Self::Error> { unimplemented!() } } \
// construct the distribution with `params`, then: dist.sample(&mut Words(script_words, 0, 0)) — the violation occurs within the scripted words"
}
