//! Law checks with engine T: C01 (continuous), C02 (discrete), C11/C12 law parts.

use crate::cases::{Case, Law, Tier, ulp_of};
use crate::refs::quantile;
use crate::tree::*;
use serde_json::{Value, json};
use std::sync::Mutex;

pub fn build_grid(law: &Law, n: usize) -> Option<Grid> {
    match law {
        Law::None => None,
        Law::Cont { cdf, lo, hi } => {
            let mut qs: Vec<f64> = (1..n).map(|k| k as f64 / n as f64).collect();
            for e in 3..=6 {
                for m in [1.0, 3.0] {
                    let t = m * 10f64.powi(-e);
                    qs.push(t);
                    qs.push(1.0 - t);
                }
            }
            qs.sort_by(|a, b| a.partial_cmp(b).unwrap());
            qs.dedup();
            let mut cps: Vec<f64> = qs.iter().map(|&q| quantile(&**cdf, q, *lo, *hi)).filter(|x| x.is_finite()).collect();
            cps.sort_by(|a, b| a.partial_cmp(b).unwrap());
            cps.dedup();
            Some(Grid { cps, consecutive_int: false })
        }
        Law::Disc { cdf, lo, hi } => {
            // integer quantiles
            let f = |q: f64| -> f64 {
                // smallest integer k in [lo, hi] with cdf(k) >= q
                let (mut a, mut b) = (*lo, if hi.is_finite() { *hi } else { 1e300 });
                if cdf(a) >= q {
                    return a;
                }
                if !hi.is_finite() {
                    let mut w = 1.0;
                    while cdf(a + w) < q && w < 1e300 {
                        w *= 2.0;
                    }
                    b = a + w;
                }
                for _ in 0..2000 {
                    if b - a <= 1.0 {
                        break;
                    }
                    let m = ((a + b) * 0.5).floor();
                    let m = if m <= a { a + 1.0 } else { m };
                    if cdf(m) >= q { b = m } else { a = m }
                }
                b
            };
            let qlo = f(1e-13);
            let qhi = f(1.0 - 1e-13);
            if qhi - qlo <= 6000.0 && qhi < 4e15 {
                let mut cps = vec![];
                let mut k = (qlo - 1.0).max(*lo - 1.0);
                while k <= qhi {
                    cps.push(k);
                    k += 1.0;
                }
                Some(Grid { cps, consecutive_int: true })
            } else {
                let mut qs: Vec<f64> = (1..n).map(|k| k as f64 / n as f64).collect();
                for e in 3..=6 {
                    for m in [1.0, 3.0] {
                        let t = m * 10f64.powi(-e);
                        qs.push(t);
                        qs.push(1.0 - t);
                    }
                }
                qs.sort_by(|a, b| a.partial_cmp(b).unwrap());
                let mut cps: Vec<f64> = qs.iter().map(|&q| f(q)).collect();
                // the first few support points exactly
                for i in 0..16 {
                    cps.push(*lo + i as f64);
                }
                cps.sort_by(|a, b| a.partial_cmp(b).unwrap());
                cps.dedup();
                Some(Grid { cps, consecutive_int: false })
            }
        }
    }
}

#[derive(Clone, Debug)]
pub struct LawOutcome {
    pub label: String,
    pub ok: bool,
    pub judged: bool,
    pub worst_ratio: f64,
    pub worst_dev: f64,
    pub worst_tol: f64,
    pub worst_at: f64,
    pub worst_ref: f64,
    pub max_abs_dev: f64,
    pub resid: f64,
    pub bad: f64,
    pub words: f64,
    pub vlevels: u8,
    pub cnt: Counters,
    pub bad_leaves: Vec<BadLeaf>,
    pub boundary_scripts: Vec<Vec<u64>>,
    pub checkpoints: usize,
    pub unresolved: usize,
    pub note: String,
    pub min_accept: f64,
    pub wall_s: f64,
}

pub fn sizes_for(vlevels: u8, tier: Tier) -> Vec<u32> {
    match (vlevels, tier) {
        (0 | 1, Tier::Quick) => vec![1 << 13, 1 << 6, 16, 8],
        (2, Tier::Quick) => vec![1 << 9, 1 << 9, 16, 8],
        (3, Tier::Quick) => vec![1 << 5, 1 << 5, 1 << 5, 8],
        (_, Tier::Quick) => vec![1 << 4, 1 << 4, 1 << 4, 1 << 4, 8, 4],
        (0 | 1, Tier::Thorough) => vec![1 << 16, 1 << 8, 32, 8],
        (2, Tier::Thorough) => vec![1 << 11, 1 << 11, 32, 8],
        (3, Tier::Thorough) => vec![1 << 8, 1 << 8, 1 << 7, 8],
        (_, Tier::Thorough) => vec![1 << 6, 1 << 5, 1 << 5, 1 << 5, 8, 4],
    }
}

pub fn check_case(case: &Case, macros: &Mutex<MacroAlphabets>, tier: Tier) -> Option<LawOutcome> {
    let t0 = std::time::Instant::now();
    let case_cap = std::time::Duration::from_secs(if tier == Tier::Quick { 25 } else { 240 });
    if !case.law_note.is_empty() {
        // stated plainly: the law of this case is not decided by this technique (no restart structure, one
        // value-producing draw per unit of output); it is not explored
        return None;
    }
    let grid = build_grid(&case.law, 256)?;
    let s = (case.build)()?;
    let is32 = case.fty == "f32";
    // pilot: discover the number of value-producing levels
    let mut pc = TreeCfg::default();
    pc.lattice = vec![8, 8, 4, 4, 2];
    pc.macro_cells = vec![8, 8, 4, 4, 2];
    pc.tail_bits = 0;
    pc.exec_budget = 3_000_000;
    pc.deadline = Some(t0 + case_cap / 4);
    let vlevels = {
        let mut ex = Explorer::new(&*s, &grid, pc, Some(macros));
        let r = ex.run(&[]);
        // a pilot that was cut short (budget or time) has not seen the whole tree: treat the case as deep
        if ex.cnt.budget_hit { r.vlevels.max(4) } else { r.vlevels }
    };
    if vlevels >= 4 && tier == Tier::Quick && std::env::var("VERIF_DEEP").is_err() {
        // four or more value-producing draws: the tree is not explorable at a useful resolution in the quick tier
        return Some(LawOutcome {
            label: case.label.clone(), ok: true, judged: false, worst_ratio: 0.0, worst_dev: 0.0, worst_tol: 0.0, worst_at: f64::NAN, worst_ref: f64::NAN, max_abs_dev: 0.0,
            resid: 1.0, bad: 0.0, words: 0.0, vlevels, cnt: Counters::default(), bad_leaves: vec![], boundary_scripts: vec![], checkpoints: grid.k(), unresolved: grid.k(),
            note: "four or more value-producing draws: not explored in the quick tier".into(), min_accept: 1.0, wall_s: t0.elapsed().as_secs_f64(),
        });
    }
    let mut cfg = TreeCfg::default();
    let mut sz = sizes_for(vlevels, tier);
    if let Ok(v) = std::env::var("VERIF_SIZES") {
        sz = v.split(',').filter_map(|x| x.parse().ok()).collect();
    }
    cfg.lattice = sz.clone();
    cfg.macro_cells = sz;
    cfg.tail_points = if tier == Tier::Quick { 2 } else { 4 };
    cfg.exec_budget = if tier == Tier::Quick { 120_000_000 } else { 1_500_000_000 };
    cfg.deadline = Some(t0 + case_cap);
    let mut ex = Explorer::new(&*s, &grid, cfg, Some(macros));
    let res = ex.run(&[]);
    let k = grid.k();
    let l = res.cdf(k);
    let cdf = match &case.law {
        Law::Cont { cdf, .. } | Law::Disc { cdf, .. } => cdf.clone(),
        Law::None => return None,
    };
    let disc = matches!(case.law, Law::Disc { .. });
    let mut out = LawOutcome {
        label: case.label.clone(), ok: true, judged: true, worst_ratio: 0.0, worst_dev: 0.0, worst_tol: 0.0, worst_at: f64::NAN, worst_ref: f64::NAN, max_abs_dev: 0.0,
        resid: res.resid, bad: res.bad, words: res.words, vlevels, cnt: ex.cnt.clone(), bad_leaves: ex.bad_leaves.clone(), boundary_scripts: ex.boundary_scripts.clone(),
        checkpoints: k, unresolved: 0, note: case.law_note.to_string(), min_accept: 1.0, wall_s: 0.0,
    };
    if !case.law_note.is_empty() || res.resid > 0.2 || ex.cnt.budget_hit {
        // stated plainly: the law of this case is not decided (Knuth product method etc.)
        out.judged = false;
    }
    let total_leaves: u64 = ex.leaf_bins.iter().map(|&x| x as u64).sum();
    let mut cum_leaves = 0u64;
    for i in 0..k {
        cum_leaves += ex.leaf_bins[i] as u64;
        let t = grid.cps[i];
        let f = cdf(t);
        // tails produced jointly by two or more value-producing draws are judged only where the explorer actually
        // resolved them (at least 32 leaf executions on each side of the checkpoint)
        if vlevels >= 2 && ((f > 0.0 && f < 1e-3) || (f < 1.0 && f > 1.0 - 1e-3)) && (cum_leaves < 32 || total_leaves - cum_leaves < 32) {
            out.unresolved += 1;
            continue;
        }
        let dev = (l[i] - f).abs();
        let e = res.err.get(i).cloned().unwrap_or(0.0).min(res.err_hi.get(i).cloned().unwrap_or(0.0));
        let gran = if disc { 0.0 } else {
            let u = 8.0 * ulp_of(t, is32);
            (cdf(t + u) - cdf(t - u)).abs()
        };
        let tref = 2e-9 + 1e-6 * f.min(1.0 - f);
        // f32 uniform draws have 2^-24 atoms; with two or more value-producing lattice levels, structure narrower than
        // one cell of the deeper levels (slivers between an accepted value and the rejection region, wrap-arounds)
        // is invisible to the variation bound: such cases pay the cell mass of their second level
        let f32_gran = if is32 { 2f64.powi(-22) } else { 0.0 };
        let floor = if vlevels >= 2 { 1.0 / ex.cfg.lattice.get(1).cloned().unwrap_or(64) as f64 } else { 0.0 };
        let abs_gran = if case.abs_gran > 0.0 { (cdf(t + case.abs_gran) - cdf(t - case.abs_gran)).abs() } else { 0.0 };
        let tol = e + res.resid + res.bad + gran + abs_gran + tref + f32_gran + floor + 1e-12;
        out.max_abs_dev = out.max_abs_dev.max(dev);
        if std::env::var("VERIF_DEBUG_TOL").is_ok() && i % 16 == 0 {
            eprintln!("  k={i} t={t:.5e} F={f:.6e} L={:.6e} dev={dev:.2e} err={e:.2e} gran={gran:.2e} tref={tref:.1e} resid={:.1e}", l[i], res.resid);
        }
        let ratio = dev / tol;
        if ratio > out.worst_ratio {
            out.worst_ratio = ratio;
            out.worst_dev = dev;
            out.worst_tol = tol;
            out.worst_at = t;
            out.worst_ref = f;
        }
    }
    if out.judged && out.worst_ratio > 1.0 {
        out.ok = false;
    }
    out.wall_s = t0.elapsed().as_secs_f64();
    Some(out)
}

pub fn outcome_json(o: &LawOutcome) -> Value {
    json!({"case": o.label, "judged": o.judged, "ok": o.ok, "max_abs_dev": o.max_abs_dev, "worst_dev_over_tol": o.worst_ratio, "worst_dev": o.worst_dev, "worst_tol": o.worst_tol,
        "worst_at": o.worst_at, "resid": o.resid, "bad_mass": o.bad, "expected_words": o.words, "value_levels": o.vlevels, "executions": o.cnt.execs, "nodes": o.cnt.nodes, "edges": o.cnt.edges,
        "leaves": o.cnt.leaves, "restarts": o.cnt.restarts, "memo_hits": o.cnt.memo_hits, "boundaries": o.cnt.boundaries, "note": o.note, "wall_s": o.wall_s})
}
