//! Law checks with engine T: C01 (continuous), C02 (discrete), C11/C12 law parts.

use crate::cases::{Case, Law, Tier, ulp_of};
use crate::refs::quantile;
use crate::tree::*;
use serde_json::{Value, json};
use std::sync::Mutex;

pub fn build_grid(law: &Law, n: usize) -> Option<Grid> {
    match law {
        Law::None => None,
        Law::Cont { cdf, lo, hi } => {
            let mut qs: Vec<f64> = (1..n).map(|k| k as f64 / n as f64).collect();
            for e in 3..=6 {
                for m in [1.0, 3.0] {
                    let t = m * 10f64.powi(-e);
                    qs.push(t);
                    qs.push(1.0 - t);
                }
            }
            qs.sort_by(|a, b| a.partial_cmp(b).unwrap());
            qs.dedup();
            let mut cps: Vec<f64> = qs.iter().map(|&q| quantile(&**cdf, q, *lo, *hi)).filter(|x| x.is_finite()).collect();
            cps.sort_by(|a, b| a.partial_cmp(b).unwrap());
            cps.dedup();
            Some(Grid { cps, consecutive_int: false })
        }
        Law::Disc { cdf, lo, hi } => {
            // integer quantiles
            let f = |q: f64| -> f64 {
                // smallest integer k in [lo, hi] with cdf(k) >= q
                let (mut a, mut b) = (*lo, if hi.is_finite() { *hi } else { 1e300 });
                if cdf(a) >= q {
                    return a;
                }
                if !hi.is_finite() {
                    let mut w = 1.0;
                    while cdf(a + w) < q && w < 1e300 {
                        w *= 2.0;
                    }
                    b = a + w;
                }
                for _ in 0..2000 {
                    if b - a <= 1.0 {
                        break;
                    }
                    let m = ((a + b) * 0.5).floor();
                    let m = if m <= a { a + 1.0 } else { m };
                    if cdf(m) >= q { b = m } else { a = m }
                }
                b
            };
            let qlo = f(1e-13);
            let qhi = f(1.0 - 1e-13);
            if qhi - qlo <= 6000.0 && qhi < 4e15 {
                let mut cps = vec![];
                let mut k = (qlo - 1.0).max(*lo - 1.0);
                while k <= qhi {
                    cps.push(k);
                    k += 1.0;
                }
                Some(Grid { cps, consecutive_int: true })
            } else {
                let mut qs: Vec<f64> = (1..n).map(|k| k as f64 / n as f64).collect();
                for e in 3..=6 {
                    for m in [1.0, 3.0] {
                        let t = m * 10f64.powi(-e);
                        qs.push(t);
                        qs.push(1.0 - t);
                    }
                }
                qs.sort_by(|a, b| a.partial_cmp(b).unwrap());
                let mut cps: Vec<f64> = qs.iter().map(|&q| f(q)).collect();
                // the first few support points exactly
                for i in 0..16 {
                    cps.push(*lo + i as f64);
                }
                cps.sort_by(|a, b| a.partial_cmp(b).unwrap());
                cps.dedup();
                Some(Grid { cps, consecutive_int: false })
            }
        }
    }
}

#[derive(Clone, Debug)]
pub struct LawOutcome {
    pub label: String,
    pub ok: bool,
    pub judged: bool,
    pub worst_ratio: f64,
    pub worst_dev: f64,
    pub worst_tol: f64,
    pub worst_at: f64,
    pub worst_ref: f64,
    pub max_abs_dev: f64,
    pub resid: f64,
    pub bad: f64,
    pub words: f64,
    pub vlevels: u8,
    pub cnt: Counters,
    pub bad_leaves: Vec<BadLeaf>,
    pub boundary_scripts: Vec<Vec<u64>>,
    pub checkpoints: usize,
    pub unresolved: usize,
    pub note: String,
    pub min_accept: f64,
    pub wall_s: f64,
}

pub fn sizes_for(vlevels: u8, tier: Tier) -> Vec<u32> {
    match (vlevels, tier) {
        (0 | 1, Tier::Quick) => vec![1 << 13, 1 << 6, 16, 8],
        (2, Tier::Quick) => vec![1 << 9, 1 << 9, 16, 8],
        (3, Tier::Quick) => vec![1 << 5, 1 << 5, 1 << 5, 8],
        (_, Tier::Quick) => vec![1 << 4, 1 << 4, 1 << 4, 1 << 4, 8, 4],
        (0 | 1, Tier::Thorough) => vec![1 << 16, 1 << 8, 32, 8],
        (2, Tier::Thorough) => vec![1 << 11, 1 << 11, 32, 8],
        (3, Tier::Thorough) => vec![1 << 8, 1 << 8, 1 << 7, 8],
        (_, Tier::Thorough) => vec![1 << 6, 1 << 5, 1 << 5, 1 << 5, 8, 4],
    }
}

/// Size plan for trees with three or more value-producing levels: given the mass with which each level is
/// reached (measured by the pilot), choose the alphabet size of every level (0 = level pruned, its mass becomes
/// residual) so that the modelled error sum_d R_d * 1.5 / n_d + pruned mass is minimal under a budget on the
/// number of children visited. Deep levels get few dyadic tail cells.
pub struct SizePlan {
    pub sizes: Vec<u32>,
    pub tail_levels: Vec<u32>,
    pub macro_tail_bits: Vec<u32>,
    pub model_err: f64,
    pub model_cost: f64,
    pub feasible: bool,
}

pub fn plan_sizes(reach: &[f64], vl: usize, budget: f64, tail_points: u32) -> SizePlan {
    let d_n = vl.min(6).max(1);
    let mut r: Vec<f64> = (0..d_n).map(|d| reach.get(d).cloned().unwrap_or(0.0).min(1.0).max(0.02)).collect();
    r[0] = 1.0;
    for d in 1..d_n {
        r[d] = r[d].min(r[d - 1]);
    }
    let tl: Vec<u32> = vec![64, 12, 6, 3, 3, 3];
    let extra: Vec<f64> = (0..d_n).map(|d| if d == 0 { 100.0 * tail_points as f64 } else { 2.0 * tail_points as f64 * tl[d] as f64 }).collect();
    let mut best: (f64, f64, Vec<u32>) = (f64::INFINITY, 0.0, vec![]);
    let mut cur: Vec<u32> = vec![0; d_n];
    fn rec(d: usize, d_n: usize, nodes: f64, cost: f64, err: f64, r: &[f64], extra: &[f64], budget: f64, cur: &mut Vec<u32>, best: &mut (f64, f64, Vec<u32>)) {
        if d == d_n {
            if err < best.0 {
                *best = (err, cost, cur.clone());
            }
            return;
        }
        // prune this level and everything below (only levels that are reached rarely may be given up)
        if d >= 1 && r[d] < 0.1 {
            let e = err + r[d];
            if e < best.0 {
                let mut c = cur.clone();
                for x in c[d..].iter_mut() {
                    *x = 0;
                }
                *best = (e, cost, c);
            }
        }
        let (lo, hi) = if d == 0 { (4, 14) } else { (2, 12) };
        for lg in lo..=hi {
            let n = (1u32 << lg) as f64;
            let children = nodes * (n + extra[d]);
            let c = cost + children;
            if c > budget {
                break;
            }
            cur[d] = 1 << lg;
            let f = if d + 1 < d_n { r[d + 1] / r[d] } else { 0.0 };
            rec(d + 1, d_n, (children * f).max(1.0), c, err + r[d] * 1.5 / n, r, extra, budget, cur, best);
        }
        cur[d] = 0;
    }
    rec(0, d_n, 1.0, 0.0, 0.0, &r, &extra, budget, &mut cur, &mut best);
    let mut sizes = best.2.clone();
    let feasible = !sizes.is_empty();
    if sizes.is_empty() {
        sizes = vec![4; d_n];
    }
    // levels beyond the planned ones are pruned
    sizes.push(0);
    let macro_tail_bits: Vec<u32> = sizes.iter().enumerate().map(|(d, &n)| if d == 0 { 24 } else { (n.max(2) as f64).log2().ceil() as u32 + if d == 1 { 6 } else { 3 } }).collect();
    SizePlan { sizes, tail_levels: tl, macro_tail_bits, model_err: best.0, model_cost: best.1, feasible }
}

pub fn check_case(case: &Case, macros: &Mutex<MacroAlphabets>, tier: Tier) -> Option<LawOutcome> {
    let t0 = std::time::Instant::now();
    crate::exec::set_label(&case.label);
    let case_cap = std::time::Duration::from_secs(if tier == Tier::Quick { 25 } else { 240 });
    if !case.law_note.is_empty() {
        // stated plainly: the law of this case is not decided by this technique (no restart structure, one
        // value-producing draw per unit of output); it is not explored
        return None;
    }
    let grid = build_grid(&case.law, 256)?;
    let s = (case.build)()?;
    let is32 = case.fty == "f32";
    // pilot: discover the number of value-producing levels
    let mut pc = TreeCfg::default();
    pc.lattice = vec![8, 8, 4, 4, 2];
    pc.macro_cells = vec![8, 8, 4, 4, 2];
    pc.tail_bits = 0;
    pc.macro_tail_bits = vec![5, 5, 4, 4, 3, 3];
    pc.exec_budget = 3_000_000;
    pc.deadline = Some(t0 + case_cap / 4);
    let (vlevels, reach, pilot_cut, pilot_epc) = {
        let mut ex = Explorer::new(&*s, &grid, pc, Some(macros));
        let r = ex.run(&[]);
        // a pilot that was cut short (budget or time) has not seen the whole tree: treat the case as deep
        (if ex.cnt.budget_hit { r.vlevels.max(4) } else { r.vlevels }, ex.reach.clone(), ex.cnt.budget_hit, ex.cnt.execs as f64 / ex.cnt.edges.max(1) as f64)
    };
    if vlevels >= 4 && tier == Tier::Quick && pilot_cut {
        // four or more value-producing draws: the tree is not explorable at a useful resolution in the quick tier
        return Some(LawOutcome {
            label: case.label.clone(), ok: true, judged: false, worst_ratio: 0.0, worst_dev: 0.0, worst_tol: 0.0, worst_at: f64::NAN, worst_ref: f64::NAN, max_abs_dev: 0.0,
            resid: 1.0, bad: 0.0, words: 0.0, vlevels, cnt: Counters::default(), bad_leaves: vec![], boundary_scripts: vec![], checkpoints: grid.k(), unresolved: grid.k(),
            note: "four or more value-producing draws and a pilot exploration that did not finish: not explored in the quick tier".into(), min_accept: 1.0, wall_s: t0.elapsed().as_secs_f64(),
        });
    }
    let mut cfg = TreeCfg::default();
    let mut sz = sizes_for(vlevels, tier);
    if vlevels == 2 && matches!(case.law, Law::Disc { .. }) {
        // discrete two-level trees (BTPE, H2PE, Zipf, Zeta): the second word is mostly resolved by subdivision, so the
        // first level is cheap to refine; the second size sets the floor (one second-level cell)
        sz = if tier == Tier::Quick { vec![1 << 12, 1 << 11, 16, 8] } else { vec![1 << 14, 1 << 12, 32, 8] };
    }
    if let Ok(v) = std::env::var("VERIF_SIZES") {
        sz = v.split(',').filter_map(|x| x.parse().ok()).collect();
    }
    let mut plan_note = String::new();
    let mut planned = false;
    cfg.tail_points = if tier == Tier::Quick { 2 } else { 4 };
    cfg.verify_points = if tier == Tier::Quick { 128 } else { 256 };
    cfg.exec_budget = if tier == Tier::Quick { 120_000_000 } else { 1_500_000_000 };
    let deep_quick = tier == Tier::Quick && vlevels >= 4;
    let mut done: Option<(Explorer, Res)> = None;
    let mut extra_execs = 0u64;
    if vlevels >= plan_min_levels() && !pilot_cut && std::env::var("VERIF_SIZES").is_err() && std::env::var("VERIF_NOPLAN").is_err() {
        // Planned sizes, scaled to a time target by measurement: every iteration is a complete exploration;
        // the time per modelled child of one iteration sets the budget of the next; the last completed one is used.
        let target: f64 = std::env::var("VERIF_TARGET").ok().and_then(|v| v.parse().ok()).unwrap_or(if tier == Tier::Quick { 3.0 } else { 60.0 });
        let mut last_model_err = 1.0;
        let mut plan_cut = false;
        // two-level trees: the first iteration is the old fixed-table exploration in all but name and may use the whole
        // cap; refinements must fit into the plan share
        let plan_share = t0 + if tier == Tier::Quick { case_cap / 4 } else { case_cap / 2 };
        let plan_deadline = if vlevels == 2 { t0 + case_cap } else { plan_share };
        // two-level trees start from the budget of the fixed table (a plan is never coarser than the table was)
        let mut budget = if vlevels == 2 { if tier == Tier::Quick { 4.0e5 } else { 5.2e6 } } else { 5.0e4 };
        let mut reach_now = reach.clone();
        for _iter in 0..5 {
            let mut plan = plan_sizes(&reach_now, vlevels as usize, budget, cfg.tail_points);
            while !plan.feasible && budget < 1e9 {
                budget *= 2.0;
                plan = plan_sizes(&reach_now, vlevels as usize, budget, cfg.tail_points);
            }
            let mut c = cfg.clone();
            c.lattice = plan.sizes.clone();
            c.macro_cells = plan.sizes.clone();
            c.tail_levels = plan.tail_levels.clone();
            c.macro_tail_bits = plan.macro_tail_bits.clone();
            c.deadline = Some(plan_deadline);
            let t1 = std::time::Instant::now();
            let mut e = Explorer::new(&*s, &grid, c, Some(macros));
            let r = e.run(&[]);
            let el = t1.elapsed().as_secs_f64();
            if std::env::var("VERIF_DEBUG_TOL").is_ok() {
                eprintln!("  {}: plan {:?} budget {:.1e} model err {:.2e} cost {:.2e}: {:.2}s execs {} cut {}", case.label, plan.sizes, budget, plan.model_err, plan.model_cost, el, e.cnt.execs, e.cnt.budget_hit);
            }
            if e.cnt.budget_hit {
                extra_execs += e.cnt.execs;
                plan_cut = true;
                break;
            }
            let better = done.is_none() || plan.model_err < 0.98 * done.as_ref().map(|_| f64::INFINITY).unwrap_or(f64::INFINITY);
            if let Some((pe, _)) = done.as_ref() {
                extra_execs += pe.cnt.execs;
            }
            let _ = better;
            plan_note = format!("size plan {:?} for reach {:?} (model error {:.2e}, {:.2e} children modelled, {:.2}s)", plan.sizes, reach_now.iter().take(vlevels as usize).map(|x| (x * 1e4).round() / 1e4).collect::<Vec<_>>(), plan.model_err, plan.model_cost, el);
            // the run's own reach is a better estimate than the pilot's
            let explored = plan.sizes.iter().position(|&n| n == 0).unwrap_or(plan.sizes.len());
            for d in 0..explored.min(reach_now.len()) {
                reach_now[d] = e.reach[d];
            }
            let growth = if explored < vlevels as usize { 6.0 } else { 40.0 };
            done = Some((e, r));
            planned = true;
            last_model_err = plan.model_err;
            let tpc = el.max(1e-4) / plan.model_cost.max(1.0);
            let nb = 0.6 * target / tpc;
            let left = plan_share.saturating_duration_since(std::time::Instant::now()).as_secs_f64();
            if nb < budget * 1.5 || left < 0.8 * target {
                break;
            }
            budget = nb.min(budget * growth);
        }
        if done.is_some() && last_model_err > 0.15 && !deep_quick {
            // the affordable plan is too coarse to be useful: the fixed size table (slower, all levels) is used instead
            if let Some((pe, _)) = done.take() {
                extra_execs += pe.cnt.execs;
            }
        }
        if done.is_none() && plan_cut && tier == Tier::Quick {
            return Some(LawOutcome {
                label: case.label.clone(), ok: true, judged: false, worst_ratio: 0.0, worst_dev: 0.0, worst_tol: 0.0, worst_at: f64::NAN, worst_ref: f64::NAN, max_abs_dev: 0.0,
                resid: 1.0, bad: 0.0, words: 0.0, vlevels, cnt: Counters { execs: extra_execs, ..Default::default() }, bad_leaves: vec![], boundary_scripts: vec![], checkpoints: grid.k(), unresolved: grid.k(),
                note: "three or more value-producing draws: no complete exploration within the quick tier's time share".into(), min_accept: 1.0, wall_s: t0.elapsed().as_secs_f64(),
            });
        }
    }
    let (mut ex, res) = match done {
        Some(x) => x,
        None => {
            if !plan_note.is_empty() || (vlevels >= 3 && !pilot_cut) {
                plan_note = "planned exploration not finished in time, fixed size table used instead".into();
            }
            planned = false;
            cfg.lattice = sz.clone();
            cfg.macro_cells = sz;
            cfg.deadline = Some(t0 + case_cap);
            let mut e = Explorer::new(&*s, &grid, cfg.clone(), Some(macros));
            let r = e.run(&[]);
            (e, r)
        }
    };
    ex.cnt.execs += extra_execs;
    let k = grid.k();
    let l = res.cdf(k);
    let cdf = match &case.law {
        Law::Cont { cdf, .. } | Law::Disc { cdf, .. } => cdf.clone(),
        Law::None => return None,
    };
    let disc = matches!(case.law, Law::Disc { .. });
    let mut out = LawOutcome {
        label: case.label.clone(), ok: true, judged: true, worst_ratio: 0.0, worst_dev: 0.0, worst_tol: 0.0, worst_at: f64::NAN, worst_ref: f64::NAN, max_abs_dev: 0.0,
        resid: res.resid, bad: res.bad, words: res.words, vlevels, cnt: ex.cnt.clone(), bad_leaves: ex.bad_leaves.clone(), boundary_scripts: ex.boundary_scripts.clone(),
        checkpoints: k, unresolved: 0, note: if plan_note.is_empty() { case.law_note.to_string() } else { plan_note.clone() }, min_accept: 1.0, wall_s: 0.0,
    };
    if !case.law_note.is_empty() || res.resid > 0.2 || ex.cnt.budget_hit {
        // stated plainly: the law of this case is not decided (Knuth product method etc.)
        out.judged = false;
    }
    let total_leaves: u64 = ex.leaf_bins.iter().map(|&x| x as u64).sum();
    let mut cum_leaves = 0u64;
    for i in 0..k {
        cum_leaves += ex.leaf_bins[i] as u64;
        let t = grid.cps[i];
        let f = cdf(t);
        // tails produced jointly by two or more value-producing draws are judged only where the explorer actually
        // resolved them (at least 32 leaf executions on each side of the checkpoint)
        if vlevels >= 2 && ((f > 0.0 && f < 1e-3) || (f < 1.0 && f > 1.0 - 1e-3)) && (cum_leaves < 32 || total_leaves - cum_leaves < 32) {
            out.unresolved += 1;
            continue;
        }
        let dev = (l[i] - f).abs();
        let e = res.err.get(i).cloned().unwrap_or(0.0).min(res.err_hi.get(i).cloned().unwrap_or(0.0));
        let gran = if disc { 0.0 } else {
            let u = 8.0 * ulp_of(t, is32);
            (cdf(t + u) - cdf(t - u)).abs()
        };
        let tref = 2e-9 + 1e-6 * f.min(1.0 - f);
        // f32 uniform draws have 2^-24 atoms; with two or more value-producing lattice levels, structure narrower than
        // one cell of the deeper levels (slivers between an accepted value and the rejection region, wrap-arounds)
        // is invisible to the variation bound: such cases pay the cell mass of their second level
        let f32_gran = if is32 { 2f64.powi(-22) } else { 0.0 };
        let floor = if vlevels >= 2 {
            let n1 = ex.cfg.lattice.get(1).cloned().unwrap_or(64);
            // planned runs: the cell mass weighted with the measured reach of that level, but never below 5e-4 (bands
            // narrower than 1/K of a run of a subdivided word stay invisible; see DESIGN 11.11)
            if n1 == 0 { 5e-4 } else if planned { (ex.reach[1].min(1.0) / n1 as f64).max(5e-4) } else { 1.0 / n1 as f64 }
        } else { 0.0 };
        let abs_gran = if case.abs_gran > 0.0 { (cdf(t + case.abs_gran) - cdf(t - case.abs_gran)).abs() } else { 0.0 };
        let tol = e + res.resid + res.bad + gran + abs_gran + tref + f32_gran + floor + 1e-12;
        out.max_abs_dev = out.max_abs_dev.max(dev);
        if std::env::var("VERIF_DEBUG_TOL").is_ok() && i % 16 == 0 {
            eprintln!("  k={i} t={t:.5e} F={f:.6e} L={:.6e} dev={dev:.2e} err={e:.2e} gran={gran:.2e} tref={tref:.1e} resid={:.1e}", l[i], res.resid);
        }
        let ratio = dev / tol;
        if ratio > out.worst_ratio {
            out.worst_ratio = ratio;
            out.worst_dev = dev;
            out.worst_tol = tol;
            out.worst_at = t;
            out.worst_ref = f;
        }
    }
    if out.judged && out.worst_ratio > 1.0 {
        out.ok = false;
    }
    out.wall_s = t0.elapsed().as_secs_f64();
    Some(out)
}

pub fn outcome_json(o: &LawOutcome) -> Value {
    json!({"case": o.label, "judged": o.judged, "ok": o.ok, "max_abs_dev": o.max_abs_dev, "worst_dev_over_tol": o.worst_ratio, "worst_dev": o.worst_dev, "worst_tol": o.worst_tol,
        "worst_at": o.worst_at, "resid": o.resid, "bad_mass": o.bad, "expected_words": o.words, "value_levels": o.vlevels, "executions": o.cnt.execs, "nodes": o.cnt.nodes, "edges": o.cnt.edges,
        "leaves": o.cnt.leaves, "restarts": o.cnt.restarts, "memo_hits": o.cnt.memo_hits, "boundaries": o.cnt.boundaries, "note": o.note, "wall_s": o.wall_s})
}

fn plan_min_levels() -> u8 {
    std::env::var("VERIF_PLAN_MIN").ok().and_then(|v| v.parse().ok()).unwrap_or(3)
}
