mod c01;
mod c03;
mod c04;
mod c06;
mod c07;
mod c08;
mod c09;
mod c13;
mod c14;
mod c15;
mod cases;
mod dev;
mod exec;
mod lawcheck;
mod prims;
mod tree;
mod pool;
mod refs;
mod report;
mod rng;
mod sampler;

use cases::Tier;

fn usage() -> ! {
    eprintln!("usage: rdverif check <C01..C15> [--tier quick|thorough] [--seed N]\n       rdverif replay <path>\n       rdverif selftest");
    std::process::exit(2)
}

fn main() {
    let args: Vec<String> = std::env::args().collect();
    if args.len() < 2 {
        usage();
    }
    exec::install_panic_hook();
    let mut tier = match std::env::var("VERIF_TIER").as_deref() {
        Ok("thorough") => Tier::Thorough,
        _ => Tier::Quick,
    };
    let mut seed: u64 = std::env::var("VERIF_SEED").ok().and_then(|s| s.parse().ok()).unwrap_or(0);
    let mut i = 2;
    let mut pos = vec![];
    while i < args.len() {
        match args[i].as_str() {
            "--tier" => {
                i += 1;
                tier = match args.get(i).map(|s| s.as_str()) {
                    Some("quick") => Tier::Quick,
                    Some("thorough") => Tier::Thorough,
                    _ => usage(),
                };
            }
            "--seed" => {
                i += 1;
                seed = args.get(i).and_then(|s| s.parse().ok()).unwrap_or_else(|| usage());
            }
            s => pos.push(s.to_string()),
        }
        i += 1;
    }
    let code = match args[1].as_str() {
        "check" => {
            let id = pos.first().cloned().unwrap_or_else(|| usage());
            if let Some(p) = ["C01", "C02", "C03", "C04", "C05", "C06", "C07", "C08", "C09", "C10", "C11", "C12", "C13", "C14", "C15"].iter().find(|p| **p == id) {
                exec::start_hang_monitor(p, format!("{tier:?}").to_lowercase(), std::time::Duration::from_secs(if tier == Tier::Quick { 20 } else { 60 }));
            }
            match id.as_str() {
                "C03" => c03::run("C03", tier, seed),
                "C05" => c03::run("C05", tier, seed),
                "C04" => c04::run(tier, seed),
                "C01" => c01::run("C01", tier, seed),
                "C06" => c06::run(tier, seed),
                "C07" => c07::run(tier, seed),
                "C13" => c13::run_c13(tier, seed),
                "C08" => c08::run(tier, seed),
                "C09" => c09::run("C09", tier, seed),
                "C10" => c09::run("C10", tier, seed),
                "C14" => c14::run(tier, seed),
                "C15" => c15::run(tier, seed),
                "C11" => c01::run_vec("C11", tier, seed),
                "C12" => c01::run_vec("C12", tier, seed),
                "C02" => c01::run("C02", tier, seed),
                "T" => tdebug(&pos, tier, seed),
                "BF2" => bf2(&pos),
                "REF" => refq(&pos),
                _ => {
                    eprintln!("unknown property {id}");
                    2
                }
            }
        }
        "c14-child" => c14::child(pos.first().and_then(|s| s.parse().ok()).unwrap_or(0), tier, seed),
        _ => usage(),
    };
    std::process::exit(code);
}

fn tdebug(pos: &[String], tier: Tier, seed: u64) -> i32 {
    let pat = pos.get(1).cloned().unwrap_or_default();
    let t0 = std::time::Instant::now();
    if std::env::var("VERIF_LIST").is_ok() {
        for c in cases::all_cases(tier, seed).iter().filter(|c| c.label.contains(&pat) && c.in_law) {
            println!("{}", c.label);
        }
        return 0;
    }
    let (ma, prs) = prims::build_macros(if tier == Tier::Quick { 1 << 11 } else { 1 << 14 }, 1 << 9);
    for (i, pr) in prs.iter().enumerate() {
        let k = pr.grid.k();
        let l = pr.res.cdf(k);
        let mut worst = (0.0, 0.0, 0.0);
        for j in 0..k {
            let t = pr.grid.cps[j];
            let f = if i == 0 { refs::phi(t) } else { refs::exp_cdf(t, 1.0) };
            let d = (l[j] - f).abs();
            if d > worst.0 { worst = (d, t, pr.res.err[j].min(pr.res.err_hi[j])); }
        }
        eprintln!("prim {} execs={} nodes={} resid={:e} bad={:e} words={:.4} maxdev={:e} at {} (err bound there {:e}) max err={:e} flat atoms={} t={:.1}s", i + 1, pr.cnt.execs, pr.cnt.nodes, pr.res.resid, pr.res.bad, pr.res.words, worst.0, worst.1, worst.2,
            pr.res.err.iter().zip(pr.res.err_hi.iter()).map(|(a, b)| a.min(*b)).fold(0.0, f64::max), ma.flat[&((i + 1) as u8)].len(), t0.elapsed().as_secs_f64());
    }
    if std::env::var("VERIF_PROFILE").is_ok() {
        std::thread::spawn(move || loop {
            std::thread::sleep(std::time::Duration::from_secs(4));
            let rss = std::fs::read_to_string("/proc/self/statm").ok().and_then(|s| s.split_whitespace().nth(1).and_then(|x| x.parse::<u64>().ok())).unwrap_or(0) * 4096 / (1 << 20);
            eprintln!("RSS {}MB at {:.0}s", rss, t0.elapsed().as_secs_f64());
        });
    }
    let macros = std::sync::Mutex::new(ma);
    let cases = cases::all_cases(tier, seed);
    use rayon::prelude::*;
    let sel: Vec<&cases::Case> = cases.iter().filter(|c| c.label.contains(&pat) && c.in_law).collect();
    if std::env::var("VERIF_LIST").is_ok() {
        for c in &sel {
            println!("{}", c.label);
        }
        return 0;
    }
    let outs: Vec<lawcheck::LawOutcome> = sel.par_iter().filter_map(|c| {
        let o = lawcheck::check_case(c, &macros, tier);
        let rss = std::fs::read_to_string("/proc/self/statm").ok().and_then(|s| s.split_whitespace().nth(1).and_then(|x| x.parse::<u64>().ok())).unwrap_or(0) * 4096 / (1 << 20);
        if let Some(o) = &o {
            eprintln!("done {} rss={}MB at={:.1}s took={:.2}s execs={} ok={} ratio={:.3} vl={} resid={:.1e}", c.label, rss, t0.elapsed().as_secs_f64(), o.wall_s, o.cnt.execs, o.ok, o.worst_ratio, o.vlevels, o.resid);
        }
        o
    }).collect();
    for o in &outs {
        println!("{:70} ok={} judged={} ratio={:.3} dev={:.2e} tol={:.2e} at={:.4e} maxdev={:.2e} resid={:.1e} bad={:.1e} words={:.3} vl={} execs={} nodes={} memo={} t={:.2}s {}",
            o.label, o.ok, o.judged, o.worst_ratio, o.worst_dev, o.worst_tol, o.worst_at, o.max_abs_dev, o.resid, o.bad, o.words, o.vlevels, o.cnt.execs, o.cnt.nodes, o.cnt.memo_hits, o.wall_s, o.note);
    }
    eprintln!("total {:.1}s", t0.elapsed().as_secs_f64());
    0
}

/// debug: brute-force product lattice over the first two words of a restart-at-root sampler
fn bf2(pos: &[String]) -> i32 {
    let pat = pos.get(1).cloned().unwrap_or_default();
    let n: u64 = pos.get(2).and_then(|s| s.parse().ok()).unwrap_or(2048);
    let cases = cases::all_cases(Tier::Quick, 0);
    let c = cases.iter().find(|c| c.label.contains(&pat)).expect("case");
    let s = (c.build)().unwrap();
    let mut acc: std::collections::BTreeMap<i64, f64> = Default::default();
    let mut rej = 0.0;
    let mut more = 0.0;
    for i in 0..n {
        for j in 0..n {
            let w1 = (((2 * i + 1) << 52) / n) << 11 | 0x400;
            let w2 = (((2 * j + 1) << 52) / n) << 11 | 0x400;
            let e = exec::run(&*s, &[w1, w2], 1, false);
            if e.overrun || e.requests != 2 {
                if e.requests == 1 { if let exec::Outcome::Done(sm) = e.out { *acc.entry(sm.v as i64).or_insert(0.0) += 1.0; continue; } }
                // rejected (third word requested) or other
                let e2 = exec::run(&*s, &[w1, w2], 2, false);
                if e2.out != e.out { rej += 1.0; } else { more += 1.0; }
                continue;
            }
            if let exec::Outcome::Done(sm) = e.out { *acc.entry(sm.v as i64).or_insert(0.0) += 1.0; }
        }
    }
    let tot: f64 = acc.values().sum();
    let mut cum = 0.0;
    let cdf = match &c.law { cases::Law::Disc { cdf, .. } | cases::Law::Cont { cdf, .. } => cdf.clone(), _ => panic!() };
    println!("accepted {} rejected {} other {}", tot, rej, more);
    for (k, v) in &acc {
        cum += v;
        println!("k={k} L={:.6} F={:.6} diff={:+.2e}", cum / tot, cdf(*k as f64), cum / tot - cdf(*k as f64));
    }
    0
}

/// debug: evaluate the reference cdf of a case at given points
fn refq(pos: &[String]) -> i32 {
    let pat = pos.get(1).cloned().unwrap_or_default();
    let cases = cases::all_cases(Tier::Quick, 0);
    let c = cases.iter().find(|c| c.label.contains(&pat)).expect("case");
    let cdf = match &c.law { cases::Law::Disc { cdf, .. } | cases::Law::Cont { cdf, .. } => cdf.clone(), _ => panic!() };
    println!("{}", c.label);
    for x in pos.iter().skip(2) {
        let t: f64 = x.parse().unwrap();
        println!("cdf({t:e}) = {:.17e}", cdf(t));
    }
    0
}
