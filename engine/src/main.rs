mod c03;
mod cases;
mod dev;
mod exec;
mod pool;
mod refs;
mod report;
mod rng;
mod sampler;

use cases::Tier;

fn usage() -> ! {
    eprintln!("usage: rdverif check <C01..C15> [--tier quick|thorough] [--seed N]\n       rdverif replay <path>\n       rdverif selftest");
    std::process::exit(2)
}

fn main() {
    let args: Vec<String> = std::env::args().collect();
    if args.len() < 2 {
        usage();
    }
    exec::install_panic_hook();
    let mut tier = match std::env::var("VERIF_TIER").as_deref() {
        Ok("thorough") => Tier::Thorough,
        _ => Tier::Quick,
    };
    let mut seed: u64 = std::env::var("VERIF_SEED").ok().and_then(|s| s.parse().ok()).unwrap_or(0);
    let mut i = 2;
    let mut pos = vec![];
    while i < args.len() {
        match args[i].as_str() {
            "--tier" => {
                i += 1;
                tier = match args.get(i).map(|s| s.as_str()) {
                    Some("quick") => Tier::Quick,
                    Some("thorough") => Tier::Thorough,
                    _ => usage(),
                };
            }
            "--seed" => {
                i += 1;
                seed = args.get(i).and_then(|s| s.parse().ok()).unwrap_or_else(|| usage());
            }
            s => pos.push(s.to_string()),
        }
        i += 1;
    }
    let code = match args[1].as_str() {
        "check" => {
            let id = pos.first().cloned().unwrap_or_else(|| usage());
            match id.as_str() {
                "C03" => c03::run("C03", tier, seed),
                "C05" => c03::run("C05", tier, seed),
                _ => {
                    eprintln!("unknown property {id}");
                    2
                }
            }
        }
        _ => usage(),
    };
    std::process::exit(code);
}
