//! Reference laws (specification level; independent of the samplers' algorithms).
//! Cross-checked against scipy/mpmath by `rdverif selftest` using /verif/ref/table.json.

use special::{Beta as SBeta, Error as SError, Gamma as SGamma};
use std::f64::consts::{PI, SQRT_2};

pub fn phi(x: f64) -> f64 {
    0.5 * (-x / SQRT_2).compl_error()
}
pub fn ln_gamma(x: f64) -> f64 {
    SGamma::ln_gamma(x).0
}
/// regularised lower incomplete gamma P(a, x)
pub fn gamma_p(a: f64, x: f64) -> f64 {
    if x <= 0.0 {
        return 0.0;
    }
    if x.is_infinite() {
        return 1.0;
    }
    if a > 2e5 {
        // Wilson-Hilferty is not accurate enough; use the uniform asymptotic expansion (Temme)
        return gamma_p_temme(a, x);
    }
    x.inc_gamma(a).clamp(0.0, 1.0)
}
fn gamma_p_temme(a: f64, x: f64) -> f64 {
    // DLMF 8.12: P(a,x) ~ 0.5 erfc(-eta sqrt(a/2)) - R_a(eta), first three terms
    let lam = x / a;
    let mu = lam - 1.0;
    let eta2 = 2.0 * (mu - mu.ln_1p());
    let eta = if mu >= 0.0 { eta2.max(0.0).sqrt() } else { -eta2.max(0.0).sqrt() };
    let c0 = if mu.abs() < 1e-4 {
        -1.0 / 3.0 + eta / 12.0 - 2.0 * eta * eta / 135.0
    } else {
        1.0 / mu - 1.0 / eta
    };
    let c1 = if mu.abs() < 1e-3 {
        -1.0 / 540.0 - eta / 288.0
    } else {
        1.0 / eta.powi(3) - 1.0 / mu.powi(3) - 1.0 / (mu * mu) - 1.0 / (12.0 * mu)
    };
    let r = (-0.5 * a * eta2).exp() / (2.0 * PI * a).sqrt() * (c0 + c1 / a);
    (0.5 * (-eta * (a / 2.0).sqrt()).compl_error() - r).clamp(0.0, 1.0)
}
/// regularised incomplete beta I_x(a,b)
pub fn beta_i(a: f64, b: f64, x: f64) -> f64 {
    if x <= 0.0 {
        return 0.0;
    }
    if x >= 1.0 {
        return 1.0;
    }
    let lb = a.ln_beta(b);
    x.inc_beta(a, b, lb).clamp(0.0, 1.0)
}

// ---------- adaptive Gauss-Kronrod (G7,K15) ----------
const XGK: [f64; 8] = [
    0.991455371120812639206854697526329,
    0.949107912342758524526189684047851,
    0.864864423359769072789712788640926,
    0.741531185599394439863864773280788,
    0.586087235467691130294144838258730,
    0.405845151377397166906606412076961,
    0.207784955007898467600689403773245,
    0.000000000000000000000000000000000,
];
const WGK: [f64; 8] = [
    0.022935322010529224963732008058970,
    0.063092092629978553290700663189204,
    0.104790010322250183839876322541518,
    0.140653259715525918745189590510238,
    0.169004726639267902826583426598550,
    0.190350578064785409913256402421014,
    0.204432940075298892414161999234649,
    0.209482141084727828012999174891714,
];
const WG: [f64; 4] = [
    0.129484966168869693270611432679082,
    0.279705391489276667901467771423780,
    0.381830050505118944950369775488975,
    0.417959183673469387755102040816327,
];
fn gk15(f: &dyn Fn(f64) -> f64, a: f64, b: f64) -> (f64, f64) {
    let c = 0.5 * (a + b);
    let h = 0.5 * (b - a);
    let fc = f(c);
    let mut rk = fc * WGK[7];
    let mut rg = fc * WG[3];
    for j in 0..7 {
        let dx = h * XGK[j];
        let s = f(c - dx) + f(c + dx);
        rk += WGK[j] * s;
        if j % 2 == 1 {
            rg += WG[j / 2] * s;
        }
    }
    (rk * h, ((rk - rg) * h).abs())
}
pub fn integrate(f: &dyn Fn(f64) -> f64, a: f64, b: f64, tol: f64) -> f64 {
    fn rec(f: &dyn Fn(f64) -> f64, a: f64, b: f64, tol: f64, depth: u32) -> f64 {
        let (v, e) = gk15(f, a, b);
        if e <= tol || depth >= 40 {
            v
        } else {
            let m = 0.5 * (a + b);
            rec(f, a, m, tol * 0.5, depth + 1) + rec(f, m, b, tol * 0.5, depth + 1)
        }
    }
    if a == b {
        return 0.0;
    }
    // pre-split into 8 panels so narrow peaks are not missed
    let n = 8;
    let mut s = 0.0;
    for i in 0..n {
        let x0 = a + (b - a) * i as f64 / n as f64;
        let x1 = a + (b - a) * (i + 1) as f64 / n as f64;
        s += rec(f, x0, x1, tol / n as f64, 0);
    }
    s
}

// ---------- continuous CDFs ----------
pub fn normal_cdf(x: f64, mu: f64, sigma: f64) -> f64 {
    if sigma == 0.0 {
        return if x >= mu { 1.0 } else { 0.0 };
    }
    let z = (x - mu) / sigma.abs();
    phi(z)
}
pub fn lognormal_cdf(x: f64, mu: f64, sigma: f64) -> f64 {
    if x <= 0.0 {
        return 0.0;
    }
    normal_cdf(x.ln(), mu, sigma)
}
pub fn exp_cdf(x: f64, lambda: f64) -> f64 {
    if x <= 0.0 { 0.0 } else { -(-lambda * x).exp_m1() }
}
pub fn gamma_cdf(x: f64, k: f64, theta: f64) -> f64 {
    if x <= 0.0 { 0.0 } else { gamma_p(k, x / theta) }
}
pub fn chi2_cdf(x: f64, k: f64) -> f64 {
    gamma_cdf(x, 0.5 * k, 2.0)
}
pub fn student_t_cdf(t: f64, nu: f64) -> f64 {
    if t == 0.0 {
        return 0.5;
    }
    let x = nu / (nu + t * t);
    // I_x(nu/2, 1/2) is the two-sided tail mass; for tiny tails use the complement form
    let tail = if x > 0.5 {
        1.0 - beta_i(0.5, 0.5 * nu, 1.0 - x)
    } else {
        beta_i(0.5 * nu, 0.5, x)
    };
    if t > 0.0 { 1.0 - 0.5 * tail } else { 0.5 * tail }
}
pub fn fisher_f_cdf(x: f64, m: f64, n: f64) -> f64 {
    if x <= 0.0 {
        return 0.0;
    }
    if x.is_infinite() {
        return 1.0;
    }
    let y = m * x / (m * x + n);
    if y > 0.5 {
        1.0 - beta_i(0.5 * n, 0.5 * m, n / (m * x + n))
    } else {
        beta_i(0.5 * m, 0.5 * n, y)
    }
}
pub fn beta_cdf(x: f64, a: f64, b: f64) -> f64 {
    if x > 0.5 { 1.0 - beta_i(b, a, 1.0 - x) } else { beta_i(a, b, x) }
}
pub fn triangular_cdf(x: f64, min: f64, max: f64, mode: f64) -> f64 {
    if x <= min {
        return if max == min && x >= min { 1.0 } else { 0.0 };
    }
    if x >= max {
        return 1.0;
    }
    if x <= mode {
        (x - min) * (x - min) / ((max - min) * (mode - min))
    } else {
        1.0 - (max - x) * (max - x) / ((max - min) * (max - mode))
    }
}
pub fn cauchy_cdf(x: f64, x0: f64, g: f64) -> f64 {
    0.5 + ((x - x0) / g).atan() / PI
}
pub fn pareto_cdf(x: f64, xm: f64, a: f64) -> f64 {
    if x <= xm { 0.0 } else { -((xm / x).ln() * a).exp_m1() }
}
pub fn weibull_cdf(x: f64, lam: f64, k: f64) -> f64 {
    if x <= 0.0 { 0.0 } else { -(-(x / lam).powf(k)).exp_m1() }
}
pub fn gumbel_cdf(x: f64, mu: f64, b: f64) -> f64 {
    (-(-(x - mu) / b).exp()).exp()
}
pub fn frechet_cdf(x: f64, mu: f64, s: f64, a: f64) -> f64 {
    if x <= mu { 0.0 } else { (-((x - mu) / s).powf(-a)).exp() }
}
pub fn inv_gauss_cdf(x: f64, mu: f64, lam: f64) -> f64 {
    if x <= 0.0 {
        return 0.0;
    }
    if x.is_infinite() {
        return 1.0;
    }
    let r = (lam / x).sqrt();
    let a = phi(r * (x / mu - 1.0));
    // exp(2 lam/mu) * Phi(-r (x/mu+1)) in log space
    let z = r * (x / mu + 1.0);
    let lp = ln_phi_neg(z) + 2.0 * lam / mu;
    (a + lp.exp()).clamp(0.0, 1.0)
}
/// ln Phi(-z) for z >= 0, stable for large z
fn ln_phi_neg(z: f64) -> f64 {
    if z < 20.0 {
        phi(-z).ln()
    } else {
        // asymptotic: Phi(-z) ~ phi(z)/z (1 - 1/z^2 + 3/z^4)
        -0.5 * z * z - (z * (2.0 * PI).sqrt()).ln() + (1.0 - 1.0 / (z * z) + 3.0 / z.powi(4)).ln()
    }
}
pub fn inv_gauss_pdf(x: f64, mu: f64, lam: f64) -> f64 {
    if x <= 0.0 {
        return 0.0;
    }
    (lam / (2.0 * PI * x * x * x)).sqrt() * (-lam * (x - mu) * (x - mu) / (2.0 * mu * mu * x)).exp()
}
/// Owen's T function
pub fn owens_t(h: f64, a: f64) -> f64 {
    if a == 0.0 {
        return 0.0;
    }
    let f = |x: f64| (-0.5 * h * h * (1.0 + x * x)).exp() / (1.0 + x * x);
    let aa = a.abs();
    // the integrand decays like exp(-h^2 x^2 / 2): split at a few decay lengths
    let mut s = 0.0;
    let scale = if h.abs() > 1e-8 { (8.0 / h.abs()).min(aa) } else { aa };
    let cut = scale.min(aa);
    s += integrate(&f, 0.0, cut.min(1.0), 1e-13);
    if cut > 1.0 {
        s += integrate(&f, 1.0, cut, 1e-13);
    }
    if aa > cut {
        // tail in t = 1/x
        let g = |t: f64| {
            if t == 0.0 { 0.0 } else {
                let x = 1.0 / t;
                (-0.5 * h * h * (1.0 + x * x)).exp() / (1.0 + x * x) * x * x
            }
        };
        s += integrate(&g, 1.0 / aa, 1.0 / cut, 1e-13);
    }
    let t = s / (2.0 * PI);
    if a < 0.0 { -t } else { t }
}
pub fn skew_normal_cdf(x: f64, xi: f64, omega: f64, alpha: f64) -> f64 {
    let z = (x - xi) / omega;
    (phi(z) - 2.0 * owens_t(z, alpha)).clamp(0.0, 1.0)
}
/// NIG(alpha, beta, delta = 1, mu = 0) as the normal variance-mean mixture X = beta Y + sqrt(Y) N, Y ~ IG(1/gamma, 1)
pub fn nig_cdf(t: f64, alpha: f64, beta: f64) -> f64 {
    let gamma = (alpha * alpha - beta * beta).sqrt();
    let mu = 1.0 / gamma;
    // integrate over s = ln y
    let f = |s: f64| {
        let y = s.exp();
        phi((t - beta * y) / y.sqrt()) * inv_gauss_pdf(y, mu, 1.0) * y
    };
    // IG(mu,1) mass is concentrated around [1e-3 .. mu*50 + 50]
    let lo = (1e-4f64).ln();
    let hi = (mu * 200.0 + 400.0).ln();
    let mode_s = mu.ln();
    let mut v = 0.0;
    let pts = [lo, (lo + mode_s) * 0.5, mode_s - 1.0, mode_s, mode_s + 1.0, (mode_s + 1.0 + hi) * 0.5, hi];
    let mut p: Vec<f64> = pts.to_vec();
    p.sort_by(|a, b| a.partial_cmp(b).unwrap());
    for w in p.windows(2) {
        if w[1] > w[0] {
            v += integrate(&f, w[0], w[1], 1e-11);
        }
    }
    // mass of Y below exp(lo): contributes Phi(t/sqrt(y)) ~ step; negligible (< 1e-200)
    v.clamp(0.0, 1.0)
}

// ---------- discrete pmfs (log space) ----------
pub fn ln_choose(n: f64, k: f64) -> f64 {
    ln_gamma(n + 1.0) - ln_gamma(k + 1.0) - ln_gamma(n - k + 1.0)
}
pub fn binomial_pmf(k: u64, n: u64, p: f64) -> f64 {
    if k > n {
        return 0.0;
    }
    if p == 0.0 {
        return if k == 0 { 1.0 } else { 0.0 };
    }
    if p == 1.0 {
        return if k == n { 1.0 } else { 0.0 };
    }
    let (n, k) = (n as f64, k as f64);
    (ln_choose(n, k) + k * p.ln() + (n - k) * (-p).ln_1p()).exp()
}
// ---- saddle-point (Loader 2000) log-pmfs: accurate to ~1e-15 relative for all magnitudes
fn stirlerr(n: f64) -> f64 {
    if n <= 15.0 {
        return ln_gamma(n + 1.0) - (n + 0.5) * n.ln() + n - 0.918938533204672741780329736406;
    }
    let nn = n * n;
    let (s0, s1, s2, s3, s4) = (1.0 / 12.0, 1.0 / 360.0, 1.0 / 1260.0, 1.0 / 1680.0, 1.0 / 1188.0);
    (s0 - (s1 - (s2 - (s3 - s4 / nn) / nn) / nn) / nn) / n
}
fn bd0(x: f64, np: f64) -> f64 {
    if (x - np).abs() < 0.1 * (x + np) {
        let v = (x - np) / (x + np);
        let mut s = (x - np) * v;
        let mut ej = 2.0 * x * v;
        let v2 = v * v;
        for j in 1..1000 {
            ej *= v2;
            let s1 = s + ej / (2 * j + 1) as f64;
            if s1 == s {
                return s1;
            }
            s = s1;
        }
        return s;
    }
    x * (x / np).ln() + np - x
}
/// ln of the binomial pmf with q = 1 - p supplied separately
pub fn ln_dbinom_raw(x: f64, n: f64, p: f64, q: f64) -> f64 {
    if p == 0.0 {
        return if x == 0.0 { 0.0 } else { f64::NEG_INFINITY };
    }
    if q == 0.0 {
        return if x == n { 0.0 } else { f64::NEG_INFINITY };
    }
    if x < 0.0 || x > n {
        return f64::NEG_INFINITY;
    }
    if x == 0.0 {
        if n == 0.0 {
            return 0.0;
        }
        return if p < 0.1 { -bd0(n, n * q) - n * p } else { n * q.ln() };
    }
    if x == n {
        return if q < 0.1 { -bd0(n, n * p) - n * q } else { n * p.ln() };
    }
    let lc = stirlerr(n) - stirlerr(x) - stirlerr(n - x) - bd0(x, n * p) - bd0(n - x, n * q);
    let lf = (2.0 * PI).ln() + x.ln() + (-x / n).ln_1p();
    lc - 0.5 * lf
}
pub fn ln_dpois_raw(x: f64, lam: f64) -> f64 {
    if x == 0.0 {
        return -lam;
    }
    -0.5 * (2.0 * PI * x).ln() - stirlerr(x) - bd0(x, lam)
}
pub fn ln_dhyper(x: f64, r: f64, b: f64, n: f64) -> f64 {
    // r with feature, b without, n draws
    if x < 0.0 || x > r || n - x > b || x > n {
        return f64::NEG_INFINITY;
    }
    if n == 0.0 {
        return if x == 0.0 { 0.0 } else { f64::NEG_INFINITY };
    }
    let p = n / (r + b);
    let q = (r + b - n) / (r + b);
    ln_dbinom_raw(x, r, p, q) + ln_dbinom_raw(n - x, b, p, q) - ln_dbinom_raw(n, r + b, p, q)
}

/// CDF of an integer law from its log-pmf: cumulative table over mean +- 12 sd when that is small enough,
/// else the Edgeworth-corrected normal approximation (remainder O(1/sd^2), returned as second component).
pub struct DiscRef {
    lo: f64,
    table: Vec<f64>,
    edge: Option<(f64, f64, f64, f64)>, // mean, sd, skewness, excess kurtosis
    pub tau: f64,
    smin: f64,
    smax: f64,
}
impl DiscRef {
    pub fn new(lnpmf: &dyn Fn(f64) -> f64, mean: f64, sd: f64, skew: f64, exkurt: f64, smin: f64, smax: f64) -> Self {
        if sd <= 1.5e5 {
            let lo = (mean - 12.0 * sd - 40.0).floor().max(smin);
            let hi = (mean + 12.0 * sd + 40.0).ceil().min(smax);
            let n = (hi - lo) as usize + 1;
            let mut t = Vec::with_capacity(n);
            let mut c = 0.0;
            for i in 0..n {
                c += lnpmf(lo + i as f64).exp();
                t.push(c);
            }
            DiscRef { lo, table: t, edge: None, tau: 1e-12, smin, smax }
        } else {
            DiscRef { lo: 0.0, table: vec![], edge: Some((mean, sd, skew, exkurt)), tau: 30.0 / (sd * sd), smin, smax }
        }
    }
    pub fn cdf(&self, k: f64) -> f64 {
        if k < self.smin {
            return 0.0;
        }
        if k >= self.smax {
            return 1.0;
        }
        let k = k.floor();
        match self.edge {
            None => {
                if k < self.lo {
                    return 0.0;
                }
                let i = (k - self.lo) as usize;
                if i >= self.table.len() { 1.0 } else { self.table[i].min(1.0) }
            }
            Some((m, s, g1, g2)) => {
                let z = (k + 0.5 - m) / s;
                let d = (-0.5 * z * z).exp() / (2.0 * PI).sqrt();
                let h2 = z * z - 1.0;
                let h3 = z * z * z - 3.0 * z;
                let h5 = z.powi(5) - 10.0 * z.powi(3) + 15.0 * z;
                (phi(z) - d * (g1 * h2 / 6.0 + g2 * h3 / 24.0 + g1 * g1 * h5 / 72.0)).clamp(0.0, 1.0)
            }
        }
    }
}
pub fn binomial_ref(n: f64, p: f64) -> DiscRef {
    let q = 1.0 - p;
    let (pp, qq, flip) = if p > 0.5 { (q, p, true) } else { (p, q, false) };
    // for p > 1/2 the complement 1 - p is exact (Sterbenz); work with Y = n - X ~ Bin(n, 1 - p) mirrored
    let mean = n * p;
    let sd = (n * p * q).sqrt();
    let skew = if sd > 0.0 { (q - p) / sd } else { 0.0 };
    let ek = if sd > 0.0 { (1.0 - 6.0 * p * q) / (sd * sd) } else { 0.0 };
    let f = move |x: f64| if flip { ln_dbinom_raw(n - x, n, pp, qq) } else { ln_dbinom_raw(x, n, pp, qq) };
    DiscRef::new(&f, mean, sd, skew, ek, 0.0, n)
}
pub fn poisson_ref(lam: f64) -> DiscRef {
    let f = move |x: f64| ln_dpois_raw(x, lam);
    DiscRef::new(&f, lam, lam.sqrt(), 1.0 / lam.sqrt(), 1.0 / lam, 0.0, f64::INFINITY)
}
pub fn hypergeom_ref(nn: f64, kk: f64, n: f64) -> DiscRef {
    let p = kk / nn;
    let mean = n * p;
    let var = n * p * (1.0 - p) * (nn - n) / (nn - 1.0).max(1.0);
    let sd = var.sqrt();
    let skew = if sd > 0.0 && nn > 2.0 { (nn - 2.0 * kk) * (nn - 1.0).sqrt() * (nn - 2.0 * n) / ((n * kk * (nn - kk) * (nn - n)).sqrt() * (nn - 2.0)) } else { 0.0 };
    let lo = (n + kk - nn).max(0.0);
    let hi = n.min(kk);
    let f = move |x: f64| ln_dhyper(x, kk, nn - kk, n);
    DiscRef::new(&f, mean, sd, skew, 0.0, lo, hi)
}
pub fn poisson_pmf(k: u64, lam: f64) -> f64 {
    let k = k as f64;
    (k * lam.ln() - lam - ln_gamma(k + 1.0)).exp()
}
pub fn poisson_cdf(k: f64, lam: f64) -> f64 {
    if k < 0.0 {
        return 0.0;
    }
    // P(X <= k) = Q(k+1, lam)
    1.0 - gamma_p(k.floor() + 1.0, lam)
}
pub fn geometric_pmf(k: u64, p: f64) -> f64 {
    if p == 1.0 {
        return if k == 0 { 1.0 } else { 0.0 };
    }
    (k as f64 * (-p).ln_1p()).exp() * p
}
pub fn geometric_cdf(k: f64, p: f64) -> f64 {
    if k < 0.0 {
        return 0.0;
    }
    // 1 - (1-p)^(k+1)
    -(((k.floor() + 1.0) * (-p).ln_1p()).exp_m1())
}
pub fn hypergeom_pmf(x: u64, nn: u64, kk: u64, n: u64) -> f64 {
    // N population, K with feature, n draws
    let lo = (n + kk).saturating_sub(nn);
    let hi = n.min(kk);
    if x < lo || x > hi {
        return 0.0;
    }
    let (nn, kk, n, x) = (nn as f64, kk as f64, n as f64, x as f64);
    (ln_choose(kk, x) + ln_choose(nn - kk, n - x) - ln_choose(nn, n)).exp()
}
/// generalised harmonic number H(n, s) = sum_{k=1..n} k^-s  (Euler-Maclaurin for large n)
pub fn harmonic(n: f64, s: f64) -> f64 {
    let m = 64.0f64.min(n);
    let mut sum = 0.0;
    let mut k = 1.0;
    while k <= m {
        sum += k.powf(-s);
        k += 1.0;
    }
    if n <= m {
        return sum;
    }
    // sum_{k=m+1..n} k^-s = int_m^n x^-s dx + (f(n) - f(m))/2 + B2/2! (f'(n)-f'(m)) + B4/4! (f'''(n)-f'''(m)) ...
    let int = if (s - 1.0).abs() < 1e-12 { (n / m).ln() } else { (n.powf(1.0 - s) - m.powf(1.0 - s)) / (1.0 - s) };
    let f = |x: f64| x.powf(-s);
    let f1 = |x: f64| -s * x.powf(-s - 1.0);
    let f3 = |x: f64| -s * (s + 1.0) * (s + 2.0) * x.powf(-s - 3.0);
    let f5 = |x: f64| -s * (s + 1.0) * (s + 2.0) * (s + 3.0) * (s + 4.0) * x.powf(-s - 5.0);
    sum + int + 0.5 * (f(n) - f(m)) + (f1(n) - f1(m)) / 12.0 - (f3(n) - f3(m)) / 720.0 + (f5(n) - f5(m)) / 30240.0
}
/// Riemann zeta for s > 1
pub fn zeta(s: f64) -> f64 {
    let m = 64.0f64;
    let mut sum = 0.0f64;
    let mut k = 1.0f64;
    while k < m {
        sum += k.powf(-s);
        k += 1.0;
    }
    // tail from m: int_m^inf + f(m)/2 - B2/2 f'(m) ...
    let f = m.powf(-s);
    sum + m.powf(1.0 - s) / (s - 1.0) + 0.5 * f + s * m.powf(-s - 1.0) / 12.0
        - s * (s + 1.0) * (s + 2.0) * m.powf(-s - 3.0) / 720.0
        + s * (s + 1.0) * (s + 2.0) * (s + 3.0) * (s + 4.0) * m.powf(-s - 5.0) / 30240.0
}
/// P(X <= k) for Zipf(n, s)
pub fn zipf_cdf(k: f64, n: f64, s: f64) -> f64 {
    if k < 1.0 {
        return 0.0;
    }
    if k >= n {
        return 1.0;
    }
    if s.is_infinite() {
        return 1.0;
    }
    harmonic(k.floor(), s) / harmonic(n, s)
}
/// P(X <= k) for Zeta(s)
pub fn zeta_cdf(k: f64, s: f64) -> f64 {
    if k < 1.0 {
        return 0.0;
    }
    if k.is_infinite() {
        return 1.0;
    }
    // 1 - tail/zeta ; tail = zeta(s) - H(k,s) computed directly for accuracy when k is large
    let z = zeta(s);
    let k = k.floor();
    if k <= 64.0 {
        harmonic(k, s) / z
    } else {
        // tail sum_{j>k} j^-s by Euler-Maclaurin from k
        let f = k.powf(-s);
        let tail = k.powf(1.0 - s) / (s - 1.0) - 0.5 * f + s * k.powf(-s - 1.0) / 12.0;
        1.0 - tail / z
    }
}
/// Solve cdf(x) = q by bisection on a bracket that is expanded as needed.
pub fn quantile(cdf: &dyn Fn(f64) -> f64, q: f64, lo: f64, hi: f64) -> f64 {
    let (mut a, mut b) = (lo, hi);
    if !a.is_finite() || !b.is_finite() {
        // expand from a finite seed
        let mut w = 1.0;
        let c = if a.is_finite() { a } else if b.is_finite() { b } else { 0.0 };
        loop {
            let aa = if a.is_finite() { a } else { c - w };
            let bb = if b.is_finite() { b } else { c + w };
            if cdf(aa) <= q && cdf(bb) >= q {
                a = aa;
                b = bb;
                break;
            }
            w *= 4.0;
            if w > 1e300 {
                a = aa;
                b = bb;
                break;
            }
        }
    }
    for _ in 0..200 {
        let m = 0.5 * (a + b);
        if m == a || m == b {
            break;
        }
        if cdf(m) < q { a = m } else { b = m }
    }
    b
}
