//! Engine T: exhaustive exploration of the execution tree of a real sampler under a finite
//! RNG alphabet (DESIGN.md §3.1). A node is a script prefix; visiting it means running the real
//! `sample()` from scratch on that prefix. Rejection loops are closed by restart detection,
//! comparison-only words are resolved exactly by interval subdivision, value-producing words by
//! midpoint lattices with dyadic tail strata or by macro-atom alphabets of the ziggurat
//! primitives. The result is the exact output law of the sampler under the finite alphabet plus
//! an a-posteriori bound on its distance from the law under the ideal RNG.

use crate::exec::{Exec, Outcome};
use crate::rng::ScriptRng;
use crate::sampler::Sampler;
use smallvec::{SmallVec, smallvec};
use std::collections::HashMap;

pub type Atoms = SmallVec<[(u32, f64); 4]>;
pub type Ups = SmallVec<[(u32, i32, f64); 2]>;

// ---------------------------------------------------------------- grid

#[derive(Clone, Debug)]
pub struct Grid {
    /// sorted checkpoints; L_k = P(X <= cps[k]); bin b = (cps[b-1], cps[b]], bin K = above all
    pub cps: Vec<f64>,
    /// checkpoints are consecutive integers (integer shifts of the law are exact index shifts)
    pub consecutive_int: bool,
}
impl Grid {
    #[inline]
    pub fn bin(&self, v: f64) -> u32 {
        if v.is_nan() {
            return self.cps.len() as u32;
        }
        self.cps.partition_point(|&c| c < v) as u32
    }
    pub fn k(&self) -> usize {
        self.cps.len()
    }
}

// ---------------------------------------------------------------- results

#[derive(Clone, Debug, Default)]
pub struct Res {
    /// pmf over bins, sparse (bin, mass) when `dense` is None
    pub atoms: Atoms,
    pub dense: Option<Vec<f64>>,
    /// back-edges: (ancestor prefix length, integer shift, mass)
    pub ups: Ups,
    pub resid: f64,
    pub bad: f64,
    /// sum over terminal edges (leaf or back-edge) of mass * requests made since this node began
    pub words: f64,
    /// per-checkpoint CDF error bound (empty = exact)
    /// error bound of P(X <= t_k) derived from the variation of the "<= t_k" mass
    pub err: Vec<f64>,
    /// error bound of P(X > t_k) derived from the variation of the "> t_k" mass
    pub err_hi: Vec<f64>,
    pub err_up: f64,
    /// number of value-producing expansions on the deepest path below (pilot uses it)
    pub vlevels: u8,
    /// optional flattened atoms (value, mass, suffix script) for building macro alphabets
    pub flat: Option<Vec<(f64, f64, Vec<u64>)>>,
}

impl Res {
    pub fn total_up(&self) -> f64 {
        self.ups.iter().map(|u| u.2).sum()
    }
    pub fn to_dense(&mut self, k: usize) {
        if self.dense.is_none() {
            let mut d = vec![0.0; k + 1];
            for &(b, m) in &self.atoms {
                d[b as usize] += m;
            }
            self.atoms.clear();
            self.dense = Some(d);
        }
    }
    pub fn cdf(&self, k: usize) -> Vec<f64> {
        let mut l = vec![0.0; k];
        match &self.dense {
            Some(d) => {
                let mut c = 0.0;
                for i in 0..k {
                    c += d[i];
                    l[i] = c;
                }
            }
            None => {
                let mut a = self.atoms.clone();
                a.sort_by_key(|x| x.0);
                let mut c = 0.0;
                let mut j = 0;
                for i in 0..k {
                    while j < a.len() && a[j].0 as usize <= i {
                        c += a[j].1;
                        j += 1;
                    }
                    l[i] = c;
                }
            }
        }
        l
    }
    pub fn mass_out(&self) -> f64 {
        match &self.dense {
            Some(d) => d.iter().sum(),
            None => self.atoms.iter().map(|a| a.1).sum(),
        }
    }
}

/// Accumulates weighted children of one node, in alphabet order, with the variation-based error bound.
struct Acc {
    k: usize,
    dense: Vec<f64>,
    ups: Ups,
    resid: f64,
    bad: f64,
    words: f64,
    err: Vec<f64>, // difference array while accumulating (len k+1)
    err_boundary: f64,
    errh: Vec<f64>,
    errh_dense: Vec<f64>,
    last_m: f64,
    prev_tot: f64,
    err_dense: Vec<f64>,
    err_up: f64,
    prev: Option<(f64, SmallVec<[(u32, f64); 8]>, f64, f64)>, // (mass, sorted pmf atoms or dense->atoms, up mass, eps)
    track_var: bool,
    vlevels: u8,
    flat: Option<Vec<(f64, f64, Vec<u64>)>>,
}

impl Acc {
    fn new(k: usize, track_var: bool, flat: bool) -> Self {
        Acc { k, dense: vec![0.0; k + 1], ups: smallvec![], resid: 0.0, bad: 0.0, words: 0.0, err: vec![0.0; k + 2], errh: vec![0.0; k + 2], errh_dense: vec![], err_boundary: 0.0, last_m: 0.0, prev_tot: 0.0, err_dense: vec![], err_up: 0.0, prev: None, track_var, vlevels: 0, flat: if flat { Some(vec![]) } else { None } }
    }
    /// add child with edge mass `m`; `extra_words`: requests consumed by the edge itself are already in r.words
    fn add(&mut self, m: f64, r: &Res, eps: f64, edge_script: &[u64]) {
        if m == 0.0 {
            return;
        }
        match &r.dense {
            Some(d) => {
                for (i, x) in d.iter().enumerate() {
                    self.dense[i] += m * x;
                }
            }
            None => {
                for &(b, x) in &r.atoms {
                    self.dense[b as usize] += m * x;
                }
            }
        }
        for &(a, s, x) in &r.ups {
            if let Some(u) = self.ups.iter_mut().find(|u| u.0 == a && u.1 == s) {
                u.2 += m * x;
            } else {
                self.ups.push((a, s, m * x));
            }
        }
        self.resid += m * r.resid;
        self.bad += m * r.bad;
        self.words += m * r.words;
        self.err_up += m * r.err_up;
        self.vlevels = self.vlevels.max(r.vlevels);
        if !r.err.is_empty() {
            if self.err_dense.is_empty() {
                self.err_dense = vec![0.0; self.k];
            }
            for (i, e) in r.err.iter().enumerate() {
                self.err_dense[i] += m * e;
            }
        }
        if !r.err_hi.is_empty() {
            if self.errh_dense.is_empty() {
                self.errh_dense = vec![0.0; self.k];
            }
            for (i, e) in r.err_hi.iter().enumerate() {
                self.errh_dense[i] += m * e;
            }
        }
        if let (Some(f), Some(cf)) = (self.flat.as_mut(), r.flat.as_ref()) {
            for (v, mass, suf) in cf {
                let mut s = edge_script.to_vec();
                s.extend_from_slice(suf);
                f.push((*v, m * mass, s));
            }
        }
        if self.track_var {
            // sorted sparse pmf of this child (dense children are converted; they are internal nodes, rare relative to leaves)
            let mut atoms: SmallVec<[(u32, f64); 8]> = match &r.dense {
                Some(d) => d.iter().enumerate().filter(|(_, x)| **x != 0.0).map(|(i, x)| (i as u32, *x)).collect(),
                None => {
                    let mut a: SmallVec<[(u32, f64); 8]> = r.atoms.iter().cloned().collect();
                    if a.len() > 1 {
                        a.sort_by_key(|x| x.0);
                    }
                    a
                }
            };
            let tot: f64 = atoms.iter().map(|a| a.1).sum();
            atoms.retain(|a| (a.0 as usize) < self.k); // the top bin does not enter any L_k
            let up = r.total_up() + r.resid + r.bad;
            if let Some((pm, pa, pup, peps)) = &self.prev {
                // the step of a function that is monotone between two sample points lies in one of the two
                // adjacent half cells: error <= max(m_i, m_{i+1}) / 2 * |jump| (+ primitive mass error * |jump|)
                let w = 0.5 * pm.max(m) + peps.max(eps);
                // signed merge over bins: c = difference of the two children's "<= t_k" masses on the current
                // segment of k, dtot - c = difference of their "> t_k" masses
                let tot_prev: f64 = self.prev_tot;
                let dtot = tot - tot_prev;
                let (mut i, mut j) = (0, 0);
                let mut c = 0.0f64;
                let mut last_bin: u32 = 0;
                while i < pa.len() || j < atoms.len() {
                    let bi = if i < pa.len() { pa[i].0 } else { u32::MAX };
                    let bj = if j < atoms.len() { atoms[j].0 } else { u32::MAX };
                    let b = bi.min(bj);
                    if b > last_bin {
                        if c != 0.0 {
                            let x = w * c.abs();
                            self.err[last_bin as usize] += x;
                            self.err[b as usize] -= x;
                        }
                        let y = w * (dtot - c).abs();
                        if y != 0.0 {
                            self.errh[last_bin as usize] += y;
                            self.errh[b as usize] -= y;
                        }
                    }
                    if bi == b {
                        c -= pa[i].1;
                        i += 1;
                    }
                    if bj == b {
                        c += atoms[j].1;
                        j += 1;
                    }
                    last_bin = b;
                }
                if (last_bin as usize) < self.k {
                    if c.abs() > 1e-300 {
                        let x = w * c.abs();
                        self.err[last_bin as usize] += x;
                        self.err[self.k] -= x;
                    }
                    let y = w * (dtot - c).abs();
                    if y > 1e-300 {
                        self.errh[last_bin as usize] += y;
                        self.errh[self.k] -= y;
                    }
                }
                self.err_up += w * (up - pup).abs();
            } else {
                // chain start: the half cell before the first sample point is unconstrained
                self.err_boundary += 0.5 * m + eps;
            }
            self.last_m = 0.5 * m + eps;
            self.prev_tot = tot;
            self.prev = Some((m, atoms, up, eps));
        }
    }
    /// add an error of weight `w` to the checkpoints with index in [lo, hi)
    fn add_range_err(&mut self, lo: usize, hi: usize, w: f64) {
        let hi = hi.min(self.k);
        if lo >= hi || w <= 0.0 {
            return;
        }
        self.err[lo] += w;
        self.err[hi] -= w;
        self.errh[lo] += w;
        self.errh[hi] -= w;
    }
    /// break the adjacency chain (children that are not neighbours in the word order)
    fn cut(&mut self) {
        if self.prev.is_some() {
            // chain end: the half cell after the last sample point is unconstrained
            self.err_boundary += self.last_m;
        }
        self.prev = None;
    }
    fn finish(mut self) -> Res {
        self.cut();
        let mut err = std::mem::take(&mut self.err_dense);
        let mut errh = std::mem::take(&mut self.errh_dense);
        let any_var = self.err.iter().any(|x| *x != 0.0) || self.errh.iter().any(|x| *x != 0.0) || self.err_boundary > 0.0;
        self.err_up += self.err_boundary;
        if any_var || !err.is_empty() || !errh.is_empty() {
            if err.is_empty() {
                err = vec![0.0; self.k];
            }
            if errh.is_empty() {
                errh = vec![0.0; self.k];
            }
            let (mut c, mut ch) = (0.0, 0.0);
            for i in 0..self.k {
                c += self.err[i];
                ch += self.errh[i];
                err[i] += c.max(0.0) + self.err_boundary;
                errh[i] += ch.max(0.0) + self.err_boundary;
            }
        }
        Res { atoms: smallvec![], dense: Some(self.dense), ups: self.ups, resid: self.resid, bad: self.bad, words: self.words, err, err_hi: errh, err_up: self.err_up, vlevels: self.vlevels, flat: self.flat }
    }
}

/// Tracks leaf values along an alphabet: at a local extremum of the output between sample points the
/// function may go beyond the sampled extreme value, which the variation bound cannot see.
#[derive(Default)]
struct Turn {
    prev2: Option<(f64, f64)>,
    prev: Option<(f64, f64)>,
}
impl Turn {
    fn reset(&mut self) {
        self.prev2 = None;
        self.prev = None;
    }
    fn leaf(&mut self, v: f64, m: f64, acc: &mut Acc, grid: &Grid) {
        if let (Some((v2, m2)), Some((v1, m1))) = (self.prev2, self.prev) {
            if v1 < v2 && v1 < v {
                // local minimum near the middle sample: values below v1 may be hidden
                acc.add_range_err(0, grid.bin(v1) as usize, 0.5 * (m2 + m) + m1);
            } else if v1 > v2 && v1 > v {
                acc.add_range_err(grid.bin(v1) as usize, grid.k(), 0.5 * (m2 + m) + m1);
            }
        }
        if self.prev.map(|p| p.0 != v).unwrap_or(true) {
            self.prev2 = self.prev;
            self.prev = Some((v, m));
        } else if let Some(p) = self.prev.as_mut() {
            p.1 += m;
        }
    }
}

// ---------------------------------------------------------------- explorer

#[derive(Clone, Debug)]
pub struct TreeCfg {
    /// alphabet size per value-producing level (index = number of value levels already above); last entry repeats
    pub lattice: Vec<u32>,
    pub macro_cells: Vec<u32>,
    /// dyadic tail strata down to 2^-tail_bits (0 = none)
    pub tail_bits: u32,
    pub tail_points: u32,
    pub restart_probes: usize,
    pub sig_probes: usize,
    pub max_depth: usize,
    pub scan_points: u32,
    pub max_classes: usize,
    pub exec_budget: u64,
    pub collect_flat: bool,
    /// wall-clock cap for one exploration (a cap that is hit is reported, never a verdict)
    pub deadline: Option<std::time::Instant>,
    /// dyadic tail levels per value depth for full-word lattices (missing entry = all)
    pub tail_levels: Vec<u32>,
    /// dyadic tail bits of macro-atom alphabets per value depth (missing entry = 24)
    pub macro_tail_bits: Vec<u32>,
    /// equispaced verification points per run of a subdivided word
    pub verify_points: u32,
}

impl Default for TreeCfg {
    fn default() -> Self {
        TreeCfg { lattice: vec![1 << 12, 1 << 9, 1 << 5, 8, 4], macro_cells: vec![1 << 10, 1 << 8, 1 << 5, 8, 4], tail_bits: 40, tail_points: 2, restart_probes: 10, sig_probes: 4, max_depth: 24, scan_points: 16, max_classes: 4096, exec_budget: 2_000_000_000, collect_flat: false, deadline: None, tail_levels: vec![], macro_tail_bits: vec![], verify_points: 128 }
    }
}

#[derive(Clone, Copy, Debug, PartialEq)]
struct Probe {
    kind: u8, // 0 done, 1 panic, 2 cap
    bits: u64,
    v: f64,
    rel_req: u32,
    bad: bool,
}

struct PathNode {
    len: usize,
    probes: Vec<Probe>,
    /// suffix scripts around the boundaries of this node's own word (plus the extreme words), with the
    /// outcome of the node on them: a restart claim must reproduce them
    bscripts: Vec<(Vec<u64>, Probe)>,
}

#[derive(Clone)]
pub struct MacroAtom {
    pub words: Vec<u64>,
    pub mass: f64,
    pub value: f64,
    /// bound on the error of the primitive's CDF at the upper boundary of this cell
    pub eps: f64,
}
#[derive(Clone, Default)]
pub struct MacroAlphabets {
    /// per primitive id (1 normal, 2 exp): flattened atoms sorted by value: (value, mass, script)
    pub flat: HashMap<u8, Vec<(f64, f64, Vec<u64>)>>,
    /// per primitive: (checkpoint value, err) sorted by value
    pub eps: HashMap<u8, Vec<(f64, f64)>>,
    pub cache: HashMap<(u8, u32, u32), std::sync::Arc<Vec<MacroAtom>>>,
}

impl MacroAlphabets {
    /// cut the flattened atom list into `m` equal-mass cells plus dyadic tail cells
    pub fn alphabet(&mut self, prim: u8, m: u32, tail_bits: u32) -> Option<std::sync::Arc<Vec<MacroAtom>>> {
        if let Some(a) = self.cache.get(&(prim, m, tail_bits)) {
            return Some(a.clone());
        }
        let flat = self.flat.get(&prim)?;
        if flat.is_empty() {
            return None;
        }
        let eps_tab = self.eps.get(&prim).cloned().unwrap_or_default();
        let total: f64 = flat.iter().map(|a| a.1).sum();
        // cell boundaries in cumulative mass: dyadic tails near 0 and 1, uniform in between
        let mut cuts: Vec<f64> = vec![];
        let m = m.max(2) as f64;
        let lo_tail = 1.0 / m;
        let mut t = lo_tail;
        let mut tails = vec![];
        let min_t = 2f64.powi(-(tail_bits as i32));
        while t > min_t {
            // each dyadic piece [t/2, t) is cut into 4
            for q in [0.875, 0.75, 0.625, 0.5] {
                tails.push(t * q);
            }
            t *= 0.5;
        }
        for &x in tails.iter().rev() {
            cuts.push(x);
        }
        let mm = m as usize;
        for i in 1..mm {
            cuts.push(i as f64 / m);
        }
        for &x in tails.iter() {
            cuts.push(1.0 - x);
        }
        cuts.push(1.0 + 1e-9);
        // walk atoms
        let mut out: Vec<MacroAtom> = vec![];
        let mut cum = 0.0;
        let mut ci = 0;
        let mut cell_mass = 0.0;
        let mut cell_start = 0usize;
        let n = flat.len();
        let mut i = 0;
        while i < n {
            let a = &flat[i];
            cum += a.1 / total;
            cell_mass += a.1 / total;
            let last = i + 1 == n;
            if cum >= cuts[ci] || last {
                // close cell [cell_start ..= i]; representative = mass-median atom
                let mut half = 0.0;
                let mut rep = cell_start;
                for j in cell_start..=i {
                    half += flat[j].1 / total;
                    if half >= 0.5 * cell_mass {
                        rep = j;
                        break;
                    }
                }
                let vhi = flat[i].0;
                let e = interp_eps(&eps_tab, vhi);
                out.push(MacroAtom { words: flat[rep].2.clone(), mass: cell_mass, value: flat[rep].0, eps: e });
                cell_mass = 0.0;
                cell_start = i + 1;
                while ci + 1 < cuts.len() && cum >= cuts[ci] {
                    ci += 1;
                }
            }
            i += 1;
        }
        let arc = std::sync::Arc::new(out);
        self.cache.insert((prim, m as u32, tail_bits), arc.clone());
        Some(arc)
    }
}

fn interp_eps(tab: &[(f64, f64)], v: f64) -> f64 {
    if tab.is_empty() {
        return 0.0;
    }
    let i = tab.partition_point(|x| x.0 < v);
    let a = if i > 0 { tab[i - 1].1 } else { tab[0].1 };
    let b = if i < tab.len() { tab[i].1 } else { tab[tab.len() - 1].1 };
    a.max(b)
}

#[derive(Default, Clone, Debug)]
pub struct Counters {
    pub execs: u64,
    pub nodes: u64,
    pub edges: u64,
    pub leaves: u64,
    pub restarts: u64,
    pub more: u64,
    pub panics: u64,
    pub memo_hits: u64,
    pub memo_rejects: u64,
    pub subdivided: u64,
    pub boundaries: u64,
    pub lattice_nodes: u64,
    pub macro_nodes: u64,
    pub max_depth: usize,
    pub budget_hit: bool,
    pub amono_violations: u64,
    pub comb_nodes: u64,
    pub pruned: u64,
}

struct MemoEntry {
    rep: Vec<u64>,
    res: Res,
    witnesses: Vec<(Vec<u64>, [Probe; 2])>,
    /// the complete (unthinned) list of the node's direct children: edge words and outcome on continuation seed 1
    level1: Vec<(Vec<u64>, Probe)>,
}

struct WitCollector {
    base: usize,
    items: Vec<(Vec<u64>, [Probe; 2])>,
    stride: u64,
    seen: u64,
    level1: Vec<(Vec<u64>, Probe)>,
    level1_overflow: bool,
}

#[derive(Clone, Debug)]
pub struct BadLeaf {
    pub script: Vec<u64>,
    pub what: String,
    pub value: f64,
}

pub struct Explorer<'a> {
    pub s: &'a dyn Sampler,
    pub grid: &'a Grid,
    pub cfg: TreeCfg,
    pub macros: Option<&'a std::sync::Mutex<MacroAlphabets>>,
    pub cnt: Counters,
    memo: HashMap<u64, Vec<MemoEntry>>,
    collectors: Vec<WitCollector>,
    pub bad_leaves: Vec<BadLeaf>,
    pub boundary_scripts: Vec<Vec<u64>>,
    pub sample_scripts: Vec<(Vec<u64>, String)>,
    alpha_cache: HashMap<(u8, u32, u32), Option<std::sync::Arc<Vec<MacroAtom>>>>,
    memo_entries: usize,
    restart_cache: HashMap<u64, (u32, i32)>,
    /// number of leaf executions per bin (resolution of the tails)
    pub leaf_bins: Vec<u32>,
    /// witnesses of the most recently explored `More` node: (signature, prefix length, witnesses)
    last_wit: Option<(u64, usize, Vec<(Vec<u64>, [Probe; 2])>, Vec<(Vec<u64>, Probe)>)>,
    /// the deadline passed while executions were still being made (a single slow call can hide it from the
    /// per-node check): every later classification returns `Cut`
    hard_stop: bool,
    /// probability mass of the path from the root to the node being expanded
    cur_mass: f64,
    /// reach[d]: mass of the paths on which a value-producing expansion with d value levels above it takes place
    pub reach: Vec<f64>,
}

#[derive(Clone, Debug)]
enum Class {
    Leaf { v: f64, bits: u64, req: u32, bad: bool },
    Bad { req: u32 },
    Restart { anc_len: u32, shift: i32, req: u32 },
    More { sig: u64, tag: u8, mid: bool, probes: Vec<Probe> },
    /// the exploration's deadline passed: nothing below is executed any more, the mass becomes residual
    Cut,
}

impl Class {
    fn id(&self) -> u64 {
        match self {
            Class::Leaf { bits, .. } => mixh(1, *bits),
            Class::Bad { .. } => mixh(2, 0),
            Class::Restart { anc_len, shift, .. } => mixh(3, (*anc_len as u64) << 32 | (*shift as u32 as u64)),
            Class::More { sig, .. } => mixh(4, *sig),
            Class::Cut => mixh(5, 0),
        }
    }
    fn is_more(&self) -> bool {
        matches!(self, Class::More { .. })
    }
}

fn mixh(a: u64, b: u64) -> u64 {
    let mut z = a.wrapping_mul(0x9E3779B97F4A7C15) ^ b.wrapping_add(0xD1B54A32D192ED03);
    z = (z ^ (z >> 30)).wrapping_mul(0xBF58476D1CE4E5B9);
    z = (z ^ (z >> 27)).wrapping_mul(0x94D049BB133111EB);
    z ^ (z >> 31)
}

const FILL: u64 = 0x400; // low 11 bits used when they are irrelevant

impl<'a> Explorer<'a> {
    pub fn new(s: &'a dyn Sampler, grid: &'a Grid, cfg: TreeCfg, macros: Option<&'a std::sync::Mutex<MacroAlphabets>>) -> Self {
        Explorer { s, grid, cfg, macros, cnt: Counters::default(), memo: HashMap::new(), collectors: vec![], bad_leaves: vec![], boundary_scripts: vec![], sample_scripts: vec![], alpha_cache: HashMap::new(), memo_entries: 0, restart_cache: HashMap::new(), leaf_bins: vec![0; grid.k() + 1], last_wit: None, hard_stop: false, cur_mass: 1.0, reach: vec![0.0; 12] }
    }

    #[inline]
    fn exec(&mut self, script: &[u64], seed: u64, tags: bool) -> Exec {
        self.cnt.execs += 1;
        if (self.cnt.execs & 0x3F) == 0 && !self.hard_stop {
            if let Some(d) = self.cfg.deadline {
                if std::time::Instant::now() > d {
                    self.hard_stop = true;
                    self.cfg.exec_budget = 0;
                    self.cnt.budget_hit = true;
                }
            }
        }
        let mut rng = ScriptRng::new(script, seed);
        rng.tags = tags;
        rng.cap = 20_000;
        let out = crate::exec::run_rng(self.s, &mut rng);
        Exec { out, requests: rng.pos, overrun: rng.overrun, over_tag: rng.over_tag, over_mid: rng.over_mid, cont_after: rng.cont }
    }

    fn probe_of(e: &Exec, plen: usize) -> Probe {
        let rel = e.requests.saturating_sub(plen as u32);
        match &e.out {
            Outcome::Done(s) => Probe { kind: 0, bits: s.bits, v: s.v, rel_req: rel, bad: s.bad.is_some() },
            Outcome::Panic(m) => Probe { kind: 1, bits: crate::report::fnv(m.as_bytes()), v: f64::NAN, rel_req: rel, bad: true },
            Outcome::Cap => Probe { kind: 2, bits: 0, v: f64::NAN, rel_req: rel, bad: true },
        }
    }

    /// classify prefix `p` in the context of `path`
    fn classify(&mut self, p: &[u64], path: &mut [PathNode]) -> Class {
        if self.hard_stop {
            return Class::Cut;
        }
        let e0 = self.exec(p, 1, true);
        if !e0.overrun {
            let c = match &e0.out {
                Outcome::Done(s) => {
                    if let Some(b) = s.bad {
                        if self.bad_leaves.len() < 64 {
                            self.bad_leaves.push(BadLeaf { script: p.to_vec(), what: b.to_string(), value: s.v });
                        }
                    }
                    Class::Leaf { v: s.v, bits: s.bits, req: e0.requests, bad: s.bad.is_some() }
                }
                Outcome::Panic(m) => {
                    if self.bad_leaves.len() < 64 {
                        self.bad_leaves.push(BadLeaf { script: p.to_vec(), what: format!("panic: {m}"), value: f64::NAN });
                    }
                    Class::Bad { req: e0.requests }
                }
                Outcome::Cap => {
                    if self.bad_leaves.len() < 64 {
                        self.bad_leaves.push(BadLeaf { script: p.to_vec(), what: "more than 20000 words in one call".into(), value: f64::NAN });
                    }
                    Class::Bad { req: e0.requests }
                }
            };
            self.offer_witness(p, &e0);
            return c;
        }
        self.offer_witness(p, &e0);
        let (tag, mid) = (e0.over_tag, e0.over_mid);
        let mut probes: Vec<Probe> = vec![Self::probe_of(&e0, p.len())];
        // restart cache: a sibling (same parent node, same length) with the same outcomes on two continuation
        // seeds has already been fully classified as a restart
        let parent_len = path.last().map(|n| n.len).unwrap_or(usize::MAX);
        let ckey = if path.is_empty() { None } else {
            let e1 = self.exec(p, 2, false);
            probes.push(Self::probe_of(&e1, p.len()));
            let (a, b) = (probes[0], probes[1]);
            Some(mixh(mixh(a.bits ^ ((a.rel_req as u64) << 40) ^ ((a.kind as u64) << 60), b.bits ^ ((b.rel_req as u64) << 40) ^ ((b.kind as u64) << 60)), ((parent_len as u64) << 20) ^ p.len() as u64))
        };
        if let Some(k) = ckey {
            if let Some(&(anc_len, shift)) = self.restart_cache.get(&k) {
                if path.iter().any(|n| n.len == anc_len as usize) {
                    return Class::Restart { anc_len, shift, req: p.len() as u32 };
                }
            }
        }
        // restart tests, deepest ancestor first
        let s_n = self.cfg.restart_probes;
        for ai in (0..path.len()).rev() {
            let alen = path[ai].len;
            let mut shift: Option<i64> = None;
            let mut ok = true;
            for i in 0..s_n {
                if probes.len() <= i {
                    let e = self.exec(p, 1 + i as u64, false);
                    probes.push(Self::probe_of(&e, p.len()));
                }
                if path[ai].probes.len() <= i {
                    // lazily extend the ancestor's probe set (its prefix is a prefix of p)
                    let e = self.exec(&p[..alen], 1 + i as u64, false);
                    let pr = Self::probe_of(&e, alen);
                    path[ai].probes.push(pr);
                }
                let a = path[ai].probes[i];
                let q = probes[i];
                if a.kind != q.kind || a.rel_req != q.rel_req {
                    ok = false;
                    break;
                }
                if a.kind == 0 {
                    if a.bits == q.bits {
                        match shift {
                            None => shift = Some(0),
                            Some(0) => {}
                            _ => {
                                ok = false;
                                break;
                            }
                        }
                    } else if self.grid.consecutive_int && a.v.fract() == 0.0 && q.v.fract() == 0.0 && (q.v - a.v).abs() < 1e9 {
                        let d = (q.v - a.v) as i64;
                        match shift {
                            None => shift = Some(d),
                            Some(x) if x == d => {}
                            _ => {
                                ok = false;
                                break;
                            }
                        }
                    } else {
                        ok = false;
                        break;
                    }
                } else if a.bits != q.bits {
                    ok = false;
                    break;
                }
            }
            if ok {
                // the ancestor's own boundary scripts and the extreme words must behave identically (up to the shift)
                let sh0 = shift.unwrap_or(0);
                if path[ai].bscripts.len() < 2 {
                    for w in [0u64, !0u64] {
                        let mut sc = p[..alen].to_vec();
                        sc.push(w);
                        let e = self.exec(&sc, 1, false);
                        let pr = Self::probe_of(&e, sc.len());
                        path[ai].bscripts.push((vec![w], pr));
                    }
                }
                let nb = path[ai].bscripts.len();
                let mut sc = p.to_vec();
                for bi in 0..nb {
                    let (suf, a) = path[ai].bscripts[bi].clone();
                    sc.truncate(p.len());
                    sc.extend_from_slice(&suf);
                    let e = self.exec(&sc, 1, false);
                    let q = Self::probe_of(&e, sc.len());
                    let same = a.kind == q.kind && a.rel_req == q.rel_req && if a.kind == 0 {
                        if sh0 == 0 { a.bits == q.bits } else { q.v - a.v == sh0 as f64 }
                    } else { a.bits == q.bits };
                    if !same {
                        ok = false;
                        break;
                    }
                }
            }
            if ok {
                let sh = shift.unwrap_or(0);
                if sh >= 0 && sh < i32::MAX as i64 {
                    if let Some(k) = ckey {
                        if sh == 0 {
                            if self.restart_cache.len() > 200_000 {
                                self.restart_cache.clear();
                            }
                            self.restart_cache.insert(k, (alen as u32, 0));
                        }
                    }
                    return Class::Restart { anc_len: alen as u32, shift: sh as i32, req: p.len() as u32 };
                }
            }
        }
        while probes.len() < self.cfg.sig_probes.max(2) {
            let i = probes.len();
            let e = self.exec(p, 1 + i as u64, false);
            probes.push(Self::probe_of(&e, p.len()));
        }
        let mut sig = mixh(7, tag as u64);
        for pr in probes.iter().take(self.cfg.sig_probes) {
            sig = mixh(sig, pr.bits ^ ((pr.rel_req as u64) << 48) ^ ((pr.kind as u64) << 60));
        }
        Class::More { sig, tag, mid, probes }
    }

    /// record a direct child of the node currently being expanded (complete list, used to confirm memo merges)
    fn note_child(&mut self, p: &[u64], node_len: usize) {
        if self.hard_stop {
            return;
        }
        if let Some(c) = self.collectors.last_mut() {
            if c.base == node_len && !c.level1_overflow {
                if c.level1.len() >= 40_000 {
                    c.level1_overflow = true;
                    c.level1.clear();
                    return;
                }
            } else {
                return;
            }
        } else {
            return;
        }
        let e = self.exec(p, 1, false);
        let pr = Self::probe_of(&e, p.len());
        if let Some(c) = self.collectors.last_mut() {
            c.level1.push((p[node_len..].to_vec(), pr));
        }
    }

    fn offer_witness(&mut self, script: &[u64], e0: &Exec) {
        if self.collectors.is_empty() {
            return;
        }
        let n = self.collectors.len();
        for ci in 0..n {
            let base = self.collectors[ci].base;
            if script.len() <= base {
                continue;
            }
            let c = &mut self.collectors[ci];
            c.seen += 1;
            if c.seen % c.stride != 0 {
                continue;
            }
            let p0 = Self::probe_of(e0, script.len());
            c.items.push((script[base..].to_vec(), [p0, p0]));
            if c.items.len() >= 96 {
                // thin deterministically
                let mut k = 0;
                c.items.retain(|_| {
                    k += 1;
                    k % 2 == 0
                });
                c.stride *= 2;
            }
        }
    }

    /// Explore the subtree below prefix `p`, whose class has been determined to be `More`.
    fn explore_more(&mut self, p: &mut Vec<u64>, path: &mut Vec<PathNode>, cls: Class, vdepth: usize) -> Res {
        let (sig, tag, mid, probes) = match cls {
            Class::More { sig, tag, mid, probes } => (sig, tag, mid, probes),
            _ => unreachable!(),
        };
        self.cnt.more += 1;
        self.cnt.max_depth = self.cnt.max_depth.max(p.len());
        let timed_out = self.cfg.deadline.map(|d| (self.cnt.more & 0x3F) == 0 && std::time::Instant::now() > d).unwrap_or(false);
        if timed_out {
            self.cfg.exec_budget = 0; // everything still pending becomes residual mass
        }
        if p.len() >= self.cfg.max_depth || self.cnt.execs > self.cfg.exec_budget {
            if self.cnt.execs > self.cfg.exec_budget {
                self.cnt.budget_hit = true;
            }
            return Res { resid: 1.0, ..Default::default() };
        }
        // memo lookup: same future signature, confirmed by replaying the witnesses of the stored subtree
        if let Some(r) = self.memo_lookup(sig, p, path) {
            for d in 0..r.vlevels as usize {
                self.note_reach(vdepth + d);
            }
            return r;
        }
        path.push(PathNode { len: p.len(), probes, bscripts: vec![] });
        self.collectors.push(WitCollector { base: p.len(), items: vec![], stride: 1, seen: 0, level1: vec![], level1_overflow: false });
        self.cnt.nodes += 1;
        let execs_before = self.cnt.execs;

        let mut res = self.expand(p, path, tag, mid, vdepth);

        let col = self.collectors.pop().unwrap();
        path.pop();
        self.close_loops(&mut res, p.len() as u32);
        let level1 = col.level1;
        let col_l1_overflow = col.level1_overflow;
        let mut wit = col.items;
        // store subtrees that were expensive to explore (cheap ones are re-explored; the memo stays small)
        let cost = self.cnt.execs - execs_before;
        let ext_ok = res.ups.iter().all(|u| (u.0 as usize) < p.len());
        let level1_ok = !col_l1_overflow && !level1.is_empty();
        if ext_ok && cost >= 3000 && self.memo_entries < 2048 && level1_ok && std::env::var("VERIF_NOMEMO").is_err() {
            // second probe of each witness on another continuation seed
            for w in wit.iter_mut() {
                let mut s = p.clone();
                s.extend_from_slice(&w.0);
                let e = self.exec(&s, 2, false);
                w.1[1] = Self::probe_of(&e, s.len());
            }
            self.memo_entries += 1;
            self.memo.entry(sig).or_default().push(MemoEntry { rep: p.clone(), res: res.clone(), witnesses: wit.clone(), level1: level1.clone() });
        }
        self.last_wit = Some((sig, p.len(), wit, level1));
        res
    }

    fn memo_lookup(&mut self, sig: u64, p: &[u64], path: &[PathNode]) -> Option<Res> {
        let n = self.memo.get(&sig).map(|v| v.len()).unwrap_or(0);
        // only the two most recent entries are tried (each trial replays the entry's complete first level)
        for ei in (n.saturating_sub(2)..n).rev() {
            // external back-edges must point to shared ancestors
            let (ok_anc, wit): (bool, Vec<(Vec<u64>, [Probe; 2])>) = {
                let e = &self.memo[&sig][ei];
                let ok = e.res.ups.iter().all(|u| {
                    let a = u.0 as usize;
                    a <= p.len() && a <= e.rep.len() && p[..a] == e.rep[..a] && path.iter().any(|n| n.len == a)
                });
                (ok, if ok { e.witnesses.clone() } else { vec![] })
            };
            if !ok_anc {
                continue;
            }
            let mut good = !wit.is_empty();
            let mut s = p.to_vec();
            // every direct child of the stored node must behave identically below the candidate (complete list:
            // nodes that differ only slightly - thresholds moving with a value-producing prefix word - are not merged)
            let l1: Vec<(Vec<u64>, Probe)> = self.memo[&sig][ei].level1.clone();
            for (suf, pr) in &l1 {
                s.truncate(p.len());
                s.extend_from_slice(suf);
                let e1 = self.exec(&s, 1, false);
                if Self::probe_of(&e1, s.len()) != *pr {
                    good = false;
                    break;
                }
            }
            for (suf, pr) in &wit {
                s.truncate(p.len());
                s.extend_from_slice(suf);
                let e1 = self.exec(&s, 1, false);
                if Self::probe_of(&e1, s.len()) != pr[0] {
                    good = false;
                    break;
                }
                let e2 = self.exec(&s, 2, false);
                if Self::probe_of(&e2, s.len()) != pr[1] {
                    good = false;
                    break;
                }
            }
            if good {
                self.cnt.memo_hits += 1;
                self.last_wit = Some((sig, p.len(), wit, l1));
                return Some(self.memo[&sig][ei].res.clone());
            } else {
                self.cnt.memo_rejects += 1;
            }
        }
        None
    }

    fn child_res(&mut self, p: &mut Vec<u64>, path: &mut Vec<PathNode>, cls: Class, node_len: usize, vdepth: usize) -> Res {
        self.cnt.edges += 1;
        match cls {
            Class::Leaf { v, req, bad, .. } => {
                self.cnt.leaves += 1;
                let mut r = Res::default();
                if bad {
                    r.bad = 1.0;
                } else {
                    let b = self.grid.bin(v);
                    self.leaf_bins[b as usize] = self.leaf_bins[b as usize].saturating_add(1);
                    r.atoms.push((b, 1.0));
                }
                r.words = (req as usize - node_len) as f64;
                if self.cfg.collect_flat && !bad {
                    r.flat = Some(vec![(v, 1.0, vec![])]);
                }
                r
            }
            Class::Bad { req } => {
                self.cnt.panics += 1;
                Res { bad: 1.0, words: (req as usize).saturating_sub(node_len) as f64, ..Default::default() }
            }
            Class::Restart { anc_len, shift, req } => {
                self.cnt.restarts += 1;
                Res { ups: smallvec![(anc_len, shift, 1.0)], words: (req as usize - node_len) as f64, ..Default::default() }
            }
            Class::Cut => Res { resid: 1.0, ..Default::default() },
            Class::More { .. } => {
                let plen = p.len();
                let mut r = self.explore_more(p, path, cls, vdepth);
                // words below were counted from the child node; the edge itself consumed plen - node_len words
                r.words += (plen - node_len) as f64;
                r
            }
        }
    }

    fn word53(j: u64) -> u64 {
        (j << 11) | FILL
    }

    #[inline]
    fn note_reach(&mut self, vdepth: usize) {
        if vdepth < self.reach.len() {
            self.reach[vdepth] += self.cur_mass;
        }
    }

    /// `child_res` with the path mass scaled by the edge mass `m`
    #[inline]
    fn child_res_m(&mut self, m: f64, p: &mut Vec<u64>, path: &mut Vec<PathNode>, cls: Class, node_len: usize, vdepth: usize) -> Res {
        let save = self.cur_mass;
        self.cur_mass = save * m;
        let r = self.child_res(p, path, cls, node_len, vdepth);
        self.cur_mass = save;
        r
    }

    /// choose the alphabet for the first unscripted request of node `p` and combine the children
    fn expand(&mut self, p: &mut Vec<u64>, path: &mut Vec<PathNode>, tag: u8, mid: bool, vdepth: usize) -> Res {
        let node_len = p.len();
        // 1. macro-atom alphabet for a tagged primitive draw
        if tag != 0 && !mid {
            if let Some(mx) = self.macros {
                let m = *self.cfg.macro_cells.get(vdepth).unwrap_or(self.cfg.macro_cells.last().unwrap());
                if m == 0 {
                    self.cnt.pruned += 1;
                    return Res { resid: 1.0, ..Default::default() };
                }
                let tb = self.cfg.macro_tail_bits.get(vdepth).cloned().unwrap_or(24);
                let alpha = match self.alpha_cache.get(&(tag, m, tb)) {
                    Some(a) => a.clone(),
                    None => {
                        let a = mx.lock().unwrap().alphabet(tag, m, tb);
                        self.alpha_cache.insert((tag, m, tb), a.clone());
                        a
                    }
                };
                if let Some(alpha) = alpha {
                    self.cnt.macro_nodes += 1;
                    self.note_reach(vdepth);
                    let mut acc = Acc::new(self.grid.k(), true, self.cfg.collect_flat);
                    let mut turn = Turn::default();
                    for a in alpha.iter() {
                        p.extend_from_slice(&a.words);
                        self.note_child(p, node_len);
                        let cls = self.classify(p, path);
                        match &cls {
                            Class::Leaf { v, bad: false, .. } => turn.leaf(*v, a.mass + a.eps, &mut acc, self.grid),
                            _ => turn.reset(),
                        }
                        let r = self.child_res_m(a.mass, p, path, cls, node_len, vdepth + 1);
                        acc.add(a.mass, &r, a.eps, &a.words);
                        p.truncate(node_len);
                    }
                    let mut r = acc.finish();
                    r.vlevels += 1;
                    return r;
                }
            }
        }
        // 2. scan with cheap signatures (one execution per word: outcome on continuation seed 1)
        let c = self.cfg.scan_points as u64;
        let top = (1u64 << 53) - 1;
        let mut pts: Vec<(u64, u64)> = vec![];
        for i in 0..=c {
            let j = if i == c { top } else { i * (top / c) };
            let id = self.cheap(p, Self::word53(j));
            pts.push((j, id));
        }
        if pts.iter().all(|x| x.1 == pts[0].1) {
            // a single class so far: look closer before trusting it
            for i in 0..64u64 {
                let j = i * (top / 64) + (top / 128);
                let id = self.cheap(p, Self::word53(j));
                pts.push((j, id));
            }
            pts.sort_by_key(|x| x.0);
        }
        // low-bit relevance probe
        let mut low_matters = false;
        for &(j, _) in pts.iter().skip(3).step_by(7).take(2) {
            let id = self.cheap_ext(p, Self::word53(j));
            for &fill in &[0u64, 0x3D5] {
                if self.cheap_ext(p, (j << 11) | fill) != id {
                    low_matters = true;
                }
            }
        }
        // continuity probe: do adjacent words (at 53-bit and at 24-bit resolution) give different outcomes?
        let n_distinct = {
            let mut ids: Vec<u64> = pts.iter().map(|x| x.1).collect();
            ids.sort();
            ids.dedup();
            ids.len()
        };
        let mut cont_votes = 0;
        if !low_matters && n_distinct > 6 {
            for &(j, id) in pts.iter().skip(2).step_by(4).take(4) {
                for &d in &[1u64, 1u64 << 29] {
                    if j + d > top {
                        continue;
                    }
                    if self.cheap(p, Self::word53(j + d)) != id {
                        cont_votes += 1;
                        break;
                    }
                }
            }
        }
        let continuous = cont_votes >= 2;
        if !low_matters && !continuous {
            if let Some(r) = self.subdivide(p, path, pts, vdepth) {
                if vdepth >= 1 && std::env::var("VERIF_CHECK_SUB").is_ok() {
                    let save = self.cfg.lattice.clone();
                    self.cfg.lattice = vec![1 << 14; 6];
                    let r2 = self.lattice_range(p, path, vdepth, 0, 1u64 << 53);
                    self.cfg.lattice = save;
                    let k = self.grid.k();
                    let (a, b) = (r.cdf(k), r2.cdf(k));
                    let d = a.iter().zip(b.iter()).map(|(x, y)| (x - y).abs()).fold(0.0, f64::max);
                    let du = (r.total_up() - r2.total_up()).abs();
                    let thr: f64 = std::env::var("VERIF_CHECK_SUB").ok().and_then(|v| v.parse().ok()).unwrap_or(2e-3);
                    if d > thr || du > thr {
                        eprintln!("SUBCHECK mismatch at prefix {:x?}: max cdf diff {:.3e}, up diff {:.3e} (sub up {:.4} lattice up {:.4})", p, d, du, r.total_up(), r2.total_up());
                    }
                }
                return r;
            }
        }
        // 3. lattice
        self.lattice(p, path, vdepth, low_matters)
    }

    /// extended signature for bit-relevance probing: besides the continuation seed, the next word is forced to
    /// both extremes (so that a following accept/reject draw cannot mask the effect of this word)
    fn cheap_ext(&mut self, p: &mut Vec<u64>, w: u64) -> u64 {
        let a = self.cheap(p, w);
        p.push(w);
        let b = self.cheap(p, 0);
        let c = self.cheap(p, !0u64);
        p.pop();
        mixh(a, mixh(b, c))
    }

    /// cheap signature of child word `w` of node `p`: the outcome of one execution on continuation seed 1
    #[inline]
    fn cheap(&mut self, p: &mut Vec<u64>, w: u64) -> u64 {
        if self.hard_stop {
            return 0;
        }
        p.push(w);
        let e = self.exec(p, 1, false);
        let pr = Self::probe_of(&e, p.len());
        p.pop();
        let ov = if e.overrun { 0x55 } else { 0 };
        mixh(pr.bits ^ ((pr.rel_req as u64) << 48) ^ ((pr.kind as u64) << 60), ov)
    }

    /// exact interval subdivision of one word whose class is piecewise constant in its top 53 bits.
    /// Boundaries are located by bisection on cheap signatures; the class of each run is then established
    /// by full classification of its two end words (which must agree).
    fn subdivide(&mut self, p: &mut Vec<u64>, path: &mut Vec<PathNode>, pts: Vec<(u64, u64)>, vdepth: usize) -> Option<Res> {
        let node_len = p.len();
        // deep in the tree a word with many classes is cheaper to treat as a lattice level
        let max_classes = if vdepth == 0 { self.cfg.max_classes } else { 16 };
        let mut runs: Vec<(u64, u64)> = vec![]; // (start j, cheap id) in increasing j
        let mut distinct: HashMap<u64, ()> = HashMap::new();
        let mut stack: Vec<(u64, u64, u64, u64)> = vec![];
        for w in pts.windows(2).rev() {
            stack.push((w[0].0, w[0].1, w[1].0, w[1].1));
        }
        runs.push((pts[0].0, pts[0].1));
        distinct.insert(pts[0].1, ());
        let mut aborted = false;
        while let Some((ja, ca, jb, cb)) = stack.pop() {
            if ca == cb {
                continue;
            }
            if jb - ja == 1 {
                self.cnt.boundaries += 1;
                if let Some(node) = path.last_mut() {
                    if node.len == node_len && node.bscripts.len() < 24 {
                        for j in [ja, jb] {
                            p.push(Self::word53(j));
                            let e = self.exec(p, 1, false);
                            let pr = Self::probe_of(&e, p.len());
                            p.pop();
                            node.bscripts.push((vec![Self::word53(j)], pr));
                        }
                    }
                }
                if self.boundary_scripts.len() < 64 {
                    let mut s = p.clone();
                    s.push(Self::word53(ja));
                    self.boundary_scripts.push(s.clone());
                    s.pop();
                    s.push(Self::word53(jb));
                    self.boundary_scripts.push(s);
                }
                distinct.insert(cb, ());
                runs.push((jb, cb));
                if distinct.len() > max_classes {
                    aborted = true;
                    break;
                }
                continue;
            }
            let jm = ja + (jb - ja) / 2;
            let cm = self.cheap(p, Self::word53(jm));
            stack.push((jm, cm, jb, cb));
            stack.push((ja, ca, jm, cm));
        }
        if aborted {
            return None;
        }
        // verification rounds: interior points of every run must carry the run's signature; a point that does
        // not (interleaved accept/reject bands, non-monotone step functions) is inserted and bisected around
        for _round in 0..6 {
            runs.sort_by_key(|r| r.0);
            runs.dedup_by(|b, a| a.1 == b.1);
            let top1 = 1u64 << 53;
            let mut extra: Vec<(u64, u64, u64, u64)> = vec![];
            let nr = runs.len();
            for i in 0..nr {
                let start = runs[i].0;
                let end = if i + 1 < nr { runs[i + 1].0 } else { top1 };
                let n = end - start;
                if n < 64 {
                    continue;
                }
                let mut prev = (start, runs[i].1);
                // K equispaced interior points: an isolated accept band inside a run of rejections (the lower part of one
                // step of a v -> floor(ln v / lambda) staircase, 4 % of the run in H2PE's tails) hides from 15 points
                // (a band narrower than 1/K of the run can still hide: K = 128 quick / 256 thorough)
                // K grows with the probability mass of the path to this node (a missed band costs its share of that
                // mass), so that the total verification work stays bounded: K = 16 .. verify_points
                let kv = (16.0 + (self.cur_mass * 131072.0).min(self.cfg.verify_points.max(16) as f64 - 16.0)) as u64;
                let mut vpts: Vec<u64> = (1..kv).map(|t| start + (n as u128 * t as u128 / kv as u128) as u64).collect();
                vpts.sort_unstable();
                vpts.dedup();
                for &j in vpts.iter().filter(|&&j| j > start && j < end) {
                    let c = self.cheap(p, Self::word53(j));
                    if c != prev.1 {
                        extra.push((prev.0, prev.1, j, c));
                    }
                    prev = (j, c);
                }
                if prev.1 != runs[i].1 && end - 1 > prev.0 {
                    // back to the run's signature before the run ends (the next run starts with another one)
                    let c_end = self.cheap(p, Self::word53(end - 1));
                    if c_end != prev.1 {
                        extra.push((prev.0, prev.1, end - 1, c_end));
                    }
                }
            }
            if extra.is_empty() {
                break;
            }
            let mut stack: Vec<(u64, u64, u64, u64)> = extra;
            while let Some((ja, ca, jb, cb)) = stack.pop() {
                if ca == cb {
                    continue;
                }
                if jb - ja == 1 {
                    self.cnt.boundaries += 1;
                    distinct.insert(cb, ());
                    runs.push((jb, cb));
                    if distinct.len() > max_classes || runs.len() > 4 * max_classes {
                        aborted = true;
                        break;
                    }
                    continue;
                }
                let jm = ja + (jb - ja) / 2;
                let cm = self.cheap(p, Self::word53(jm));
                stack.push((jm, cm, jb, cb));
                stack.push((ja, ca, jm, cm));
            }
            if aborted {
                return None;
            }
        }
        runs.sort_by_key(|r| r.0);
        runs.dedup_by(|b, a| a.1 == b.1);
        {
            // exact subdivision is trusted for (a) words with at most three bands, (b) at the top level, step
            // functions whose signatures never reappear (inverse transforms). Everything else (interleaved
            // accept/reject bands accumulating at an end point, e.g. the exponential tails of BTPE/H2PE) is
            // explored as a lattice level, whose error bound does not rely on having found every band.
            let mut seen: HashMap<u64, usize> = HashMap::new();
            let mut reappears = false;
            for (i, r) in runs.iter().enumerate() {
                if let Some(prev) = seen.insert(r.1, i) {
                    if prev + 1 != i {
                        reappears = true;
                    }
                }
            }
            if (vdepth >= 1 && runs.len() > 3) || (runs.len() > 3 && reappears) {
                self.cnt.amono_violations += reappears as u64;
                return None;
            }
        }
        self.cnt.subdivided += 1;
        if let Ok(h) = std::env::var("VERIF_DUMP_PREFIX") {
            if p.len() == 1 && format!("{:x}", p[0]) == h {
                eprintln!("DUMP runs for prefix {:x?}:", p);
                for r in &runs {
                    eprintln!("   start={:.6} sig={:x}", r.0 as f64 / (1u64 << 53) as f64, r.1);
                }
                for i in 0..128u64 {
                    let j = (i << 46) + (1 << 45);
                    p.push(Self::word53(j));
                    let e = self.exec(p, 1, false);
                    p.pop();
                    eprintln!("   v={:.5} out={:?} req={} overrun={}", j as f64 / (1u64 << 53) as f64, match &e.out { Outcome::Done(s) => s.v, _ => -1.0 }, e.requests, e.overrun);
                }
            }
        }
        // bookkeeping: does a signature reappear after another one (non run-monotone word)?
        {
            let mut seen: HashMap<u64, usize> = HashMap::new();
            for (i, r) in runs.iter().enumerate() {
                if let Some(prev) = seen.insert(r.1, i) {
                    if prev + 1 != i {
                        self.cnt.amono_violations += 1;
                    }
                }
            }
        }
        let top = 1u64 << 53;
        let mut acc = Acc::new(self.grid.k(), false, self.cfg.collect_flat);
        let nr = runs.len();
        for i in 0..nr {
            let start = runs[i].0;
            let end = if i + 1 < nr { runs[i + 1].0 } else { top };
            let mass = (end - start) as f64 / top as f64;
            let n = end - start;
            let repj = start + n / 2;
            let w = Self::word53(repj);
            // full classification at the representative and at both ends of the run
            p.push(w);
            self.note_child(p, node_len);
            let cls_rep = self.classify(p, path);
            p.pop();
            for &q in &[start, end - 1] {
                if q != repj {
                    p.push(Self::word53(q));
                    self.note_child(p, node_len);
                    p.pop();
                }
            }
            let sig_rep = cls_rep.id();
            let mut ends_ok = true;
            for &q in &[start, end - 1] {
                if q == repj {
                    continue;
                }
                p.push(Self::word53(q));
                let cq = self.classify(p, path);
                p.pop();
                if cq.id() != sig_rep {
                    ends_ok = false;
                }
            }
            if !ends_ok {
                // cheap signatures agreed but the full classes do not: resolve this interval by a lattice
                self.cnt.memo_rejects += 1;
                let save = self.cur_mass;
                self.cur_mass = save * mass;
                let r2 = self.lattice_range(p, path, vdepth, start, end);
                self.cur_mass = save;
                acc.add(mass, &r2, 0.0, &[]);
                continue;
            }
            if cls_rep.is_more() {
                p.push(w);
                self.last_wit = None;
                let r = self.child_res_m(mass, p, path, cls_rep, node_len, vdepth);
                p.pop();
                let (wit, lev1) = self.last_wit.take().filter(|w| w.1 == node_len + 1).map(|w| (w.2, w.3)).unwrap_or_default();
                let mut all_ok = !wit.is_empty() && !lev1.is_empty();
                if n > 1 && all_ok {
                    for &q in &[start, end - 1, start + n / 4, start + 3 * (n / 4)] {
                        if q == repj {
                            continue;
                        }
                        p.push(Self::word53(q));
                        // replay the representative's witness scripts below this word: every outcome must be bit-identical
                        let mut ok = true;
                        let base = p.len();
                        let mut sc = p.clone();
                        let mut rc = p.clone();
                        *rc.last_mut().unwrap() = w;
                        for (suf, pr) in &lev1 {
                            sc.truncate(base);
                            sc.extend_from_slice(suf);
                            let e1 = self.exec(&sc, 1, false);
                            if Self::probe_of(&e1, sc.len()) != *pr {
                                ok = false;
                                break;
                            }
                        }
                        for (suf, pr) in &wit {
                            if !ok {
                                break;
                            }
                            sc.truncate(base);
                            sc.extend_from_slice(suf);
                            let e1 = self.exec(&sc, 1, false);
                            if Self::probe_of(&e1, sc.len()) != pr[0] {
                                ok = false;
                                break;
                            }
                            rc.truncate(base);
                            rc.extend_from_slice(suf);
                            let e2 = self.exec(&sc, 2, false);
                            let r2 = self.exec(&rc, 2, false);
                            if Self::probe_of(&e2, sc.len()) != Self::probe_of(&r2, rc.len()) {
                                ok = false;
                                break;
                            }
                        }
                        p.pop();
                        if !ok {
                            all_ok = false;
                            self.cnt.memo_rejects += 1;
                            break;
                        }
                    }
                }
                if all_ok {
                    acc.add(mass, &r, 0.0, &[w]);
                } else if nr > 4 {
                    // many bands whose interior is not uniform: this is a value-producing word; explore it as a lattice level
                    return None;
                } else {
                    // the word matters on this interval: lattice inside it
                    let save = self.cur_mass;
                    self.cur_mass = save * mass;
                    let r2 = self.lattice_range(p, path, vdepth, start, end);
                    self.cur_mass = save;
                    acc.add(mass, &r2, 0.0, &[]);
                }
            } else {
                p.push(w);
                let r = self.child_res_m(mass, p, path, cls_rep, node_len, vdepth);
                p.pop();
                acc.add(mass, &r, 0.0, &[w]);
            }
        }
        Some(acc.finish())
    }

    /// midpoint lattice over the whole word, with dyadic tail strata
    fn lattice(&mut self, p: &mut Vec<u64>, path: &mut Vec<PathNode>, vdepth: usize, low_matters: bool) -> Res {
        if !low_matters {
            return self.lattice_range(p, path, vdepth, 0, 1u64 << 53);
        }
        // which bits matter? flip single bits of three base words and compare cheap signatures
        let bases = [0x5A5A_5A5A_5A5A_5A5Au64, 0x0123_4567_89AB_CDEF, 0xC3C3_3C3C_A5A5_5A5A, 0x0F0F_00FF_1234_8001, 0xFEDC_BA98_7654_3210];
        let ids: Vec<u64> = bases.iter().map(|&b| self.cheap_ext(p, b)).collect();
        let mut hi: Option<u32> = None;
        for b in (0..64u32).rev() {
            let mut ch = false;
            for (i, &w) in bases.iter().enumerate() {
                if self.cheap_ext(p, w ^ (1u64 << b)) != ids[i] {
                    ch = true;
                    break;
                }
            }
            if ch {
                hi = Some(b);
                break;
            }
        }
        let hi = match hi {
            Some(h) if h < 60 => h,
            _ => {
                // high and low bits both matter (or nothing detectable): not a shape this explorer resolves;
                // the mass below this node is reported as residual and the case is not judged
                return Res { resid: 1.0, ..Default::default() };
            }
        };
        // low window [0, hi]: the word acts through the integer m = word mod 2^(hi+1)
        let node_len = p.len();
        self.cnt.lattice_nodes += 1;
        let wbits = hi + 1;
        let nvals: u64 = 1u64 << wbits;
        let a0 = *self.cfg.lattice.get(vdepth).unwrap_or(self.cfg.lattice.last().unwrap()) as u64;
        if a0 == 0 {
            self.cnt.pruned += 1;
            return Res { resid: 1.0, ..Default::default() };
        }
        let a = a0.min(nvals);
        let topfill = 0xA5A5_A5A5_A5A5_A5A5u64 & !(nvals - 1);
        let mut acc = Acc::new(self.grid.k(), a < nvals, self.cfg.collect_flat);
        if a < nvals {
            self.note_reach(vdepth);
        }
        for i in 0..a {
            let lo = (nvals as u128 * i as u128 / a as u128) as u64;
            let hi_ = (nvals as u128 * (i + 1) as u128 / a as u128) as u64;
            let m = lo + (hi_ - lo) / 2;
            let wv = topfill | m;
            p.push(wv);
            self.note_child(p, node_len);
            let cls = self.classify(p, path);
            let r = self.child_res_m((hi_ - lo) as f64 / nvals as f64, p, path, cls, node_len, vdepth + 1);
            p.pop();
            acc.add((hi_ - lo) as f64 / nvals as f64, &r, 0.0, &[wv]);
        }
        let mut r = acc.finish();
        if a < nvals {
            r.vlevels += 1;
        }
        r
    }

    fn lattice_range(&mut self, p: &mut Vec<u64>, path: &mut Vec<PathNode>, vdepth: usize, start: u64, end: u64) -> Res {
        let node_len = p.len();
        self.cnt.lattice_nodes += 1;
        let a = *self.cfg.lattice.get(vdepth).unwrap_or(self.cfg.lattice.last().unwrap()) as u64;
        if a == 0 {
            // level pruned by the size plan: its mass is reported as residual
            self.cnt.pruned += 1;
            return Res { resid: 1.0, ..Default::default() };
        }
        let n = end - start;
        let a = a.min(n).max(1);
        // strata boundaries (in units of 53-bit words), with dyadic refinement of the first and last stratum when the range is the full word
        let mut cells: Vec<(u64, u64)> = vec![]; // [lo, hi)
        let full = start == 0 && end == (1u64 << 53);
        let w = n / a;
        if full && self.cfg.tail_bits > 0 && w >= 4 {
            // first stratum [0, w): {0}, then [2^k, 2^(k+1)) pieces
            // number of dyadic levels at this depth (all by default; size plans for deep trees use fewer below the top)
            let tl = self.cfg.tail_levels.get(vdepth).cloned().unwrap_or(64);
            let b0 = if tl >= 53 { 1 } else { (w >> tl).max(1) };
            let mut lo_cells = vec![(0u64, b0)];
            let mut b = b0;
            while b < w {
                let hi = (b * 2).min(w);
                // split each dyadic piece into tail_points sub-cells
                let tp = (self.cfg.tail_points as u64).min(hi - b).max(1);
                for t in 0..tp {
                    lo_cells.push((b + (hi - b) * t / tp, b + (hi - b) * (t + 1) / tp));
                }
                b = hi;
            }
            cells.extend(lo_cells.iter().cloned());
            for i in 1..a - 1 {
                cells.push((i * w, (i + 1) * w));
            }
            // last stratum mirrored
            let last_lo = (a - 1) * w;
            let mut hi_cells: Vec<(u64, u64)> = lo_cells.iter().map(|&(l, h)| (end - h, end - l)).collect();
            hi_cells.reverse();
            // the middle of the mirrored block may not start exactly at last_lo when n is not divisible: fix first cell
            if let Some(first) = hi_cells.first_mut() {
                first.0 = last_lo.min(first.0);
            }
            cells.extend(hi_cells);
        } else {
            for i in 0..a {
                let lo = start + (n as u128 * i as u128 / a as u128) as u64;
                let hi = start + (n as u128 * (i + 1) as u128 / a as u128) as u64;
                if hi > lo {
                    cells.push((lo, hi));
                }
            }
        }
        let mut acc = Acc::new(self.grid.k(), true, self.cfg.collect_flat);
        self.note_reach(vdepth);
        let tot = n as f64;
        // comb detection: the variation bound assumes the conditional law is monotone between adjacent sample
        // points; a word along which accept/reject alternate repeatedly or leaf values change direction hides
        // structure below the lattice resolution, so such a node also pays its largest cell mass
        let (mut last_kind, mut switches) = (0u8, 0u32);
        let (mut last_v, mut last_dir, mut dir_changes) = (f64::NAN, 0i8, 0u32);
        let mut max_cell = 0.0f64;
        let mut turn = Turn::default();
        for &(lo, hi) in &cells {
            let j = lo + (hi - lo) / 2;
            let wv = Self::word53(j);
            p.push(wv);
            self.note_child(p, node_len);
            let cls = self.classify(p, path);
            let kind = match &cls {
                Class::Leaf { v, .. } => {
                    if !last_v.is_nan() && *v != last_v {
                        let d = if *v > last_v { 1 } else { -1 };
                        if last_dir != 0 && d != last_dir {
                            dir_changes += 1;
                        }
                        last_dir = d;
                    }
                    last_v = *v;
                    1u8
                }
                Class::Restart { .. } => 2u8,
                _ => 0u8,
            };
            if kind != 0 {
                if last_kind != 0 && kind != last_kind {
                    switches += 1;
                }
                last_kind = kind;
            }
            let m = (hi - lo) as f64 / tot;
            match &cls {
                Class::Leaf { v, bad: false, .. } => turn.leaf(*v, m, &mut acc, self.grid),
                _ => turn.reset(),
            }
            let r = self.child_res_m(m, p, path, cls, node_len, vdepth + 1);
            p.pop();
            max_cell = max_cell.max(m);
            acc.add(m, &r, 0.0, &[wv]);
        }
        if switches > 2 || dir_changes > 1 {
            self.cnt.comb_nodes += 1;
            acc.err_boundary += max_cell;
        }
        let mut r = acc.finish();
        r.vlevels += 1;
        r
    }

    fn close_loops(&mut self, r: &mut Res, len: u32) {
        close_loops_k(r, len, self.grid.k())
    }
}

/// close the self-loops of a node whose prefix length is `len`
pub fn close_loops_k(r: &mut Res, len: u32, k: usize) {
    {
        let selfs: Vec<(i32, f64)> = r.ups.iter().filter(|u| u.0 == len).map(|u| (u.1, u.2)).collect();
        if selfs.is_empty() {
            return;
        }
        r.ups.retain(|u| u.0 != len);
        let rho_tot: f64 = selfs.iter().map(|s| s.1).sum();
        let rho0: f64 = selfs.iter().filter(|s| s.0 == 0).map(|s| s.1).sum();
        if rho_tot >= 1.0 - 1e-15 {
            // a loop that never exits: all mass is residual
            *r = Res { resid: 1.0, ..Default::default() };
            return;
        }
        let scale = 1.0 / (1.0 - rho_tot);
        let shifts: Vec<(usize, f64)> = selfs.iter().filter(|s| s.0 != 0).map(|s| (s.0 as usize, s.1)).collect();
        if shifts.is_empty() {
            match &mut r.dense {
                Some(d) => d.iter_mut().for_each(|x| *x *= scale),
                None => r.atoms.iter_mut().for_each(|x| x.1 *= scale),
            }
        } else {
            r.to_dense(k);
            let t = r.dense.take().unwrap();
            let mut f = vec![0.0; k + 1];
            let s0 = 1.0 / (1.0 - rho0);
            for b in 0..k {
                let mut x = t[b];
                for &(d, rho) in &shifts {
                    if b >= d {
                        x += rho * f[b - d];
                    }
                }
                f[b] = x * s0;
            }
            // top bin absorbs everything shifted past the last checkpoint
            let mut x = t[k];
            for &(d, rho) in &shifts {
                for b in k.saturating_sub(d)..k {
                    x += rho * f[b];
                }
            }
            f[k] = x / (1.0 - rho_tot);
            r.dense = Some(f);
        }
        for u in r.ups.iter_mut() {
            u.2 *= scale;
        }
        r.resid *= scale;
        r.bad *= scale;
        r.words *= scale;
        let eu = r.err_up;
        if (eu > 0.0 || !r.err.is_empty()) && r.dense.is_some() {
            // d L_k <= (d T_k + L_k d rho) / (1 - rho), likewise for the upper masses
            let d = r.dense.as_ref().unwrap();
            let tot: f64 = d.iter().sum();
            if r.err.is_empty() {
                r.err = vec![0.0; k];
            }
            if r.err_hi.is_empty() {
                r.err_hi = vec![0.0; k];
            }
            let mut c = 0.0;
            for i in 0..k {
                c += d[i];
                r.err[i] = r.err[i] * scale + c * eu * scale;
                r.err_hi[i] = r.err_hi[i] * scale + (tot - c).max(0.0) * eu * scale;
            }
        } else {
            for e in r.err.iter_mut() {
                *e = (*e + eu) * scale;
            }
            for e in r.err_hi.iter_mut() {
                *e = (*e + eu) * scale;
            }
        }
        r.err_up *= scale;
        if let Some(f) = r.flat.as_mut() {
            f.iter_mut().for_each(|a| a.1 *= scale);
        }
    }
}

impl<'a> Explorer<'a> {
    /// explore from the root (empty prefix) or from a forced prefix
    pub fn run(&mut self, prefix: &[u64]) -> Res {
        let mut p = prefix.to_vec();
        let mut path: Vec<PathNode> = vec![];
        let cls = self.classify(&p, &mut path);
        let plen = p.len();
        let mut r = self.child_res(&mut p, &mut path, cls, plen, 0);
        r.to_dense(self.grid.k());
        r
    }
}

impl<'a> Explorer<'a> {
    /// Raw exploration of a ziggurat primitive, layers `b_lo..b_hi`: the first word is enumerated as the
    /// complete product of the layer bytes and `strata` midpoint strata of the 52 u-bits (with dyadic
    /// refinement at both ends of the u range); deeper words use the general rules. Returns the
    /// unclosed partial result (masses sum to (b_hi-b_lo)/256).
    pub fn run_zig_product(&mut self, strata: u32, b_lo: u64, b_hi: u64) -> Option<Res> {
        let mut p: Vec<u64> = vec![];
        let mut path: Vec<PathNode> = vec![];
        let cls = self.classify(&p, &mut path);
        let probes = match cls {
            Class::More { probes, .. } => probes,
            _ => return None,
        };
        path.push(PathNode { len: 0, probes, bscripts: vec![] });
        self.cnt.nodes += 1;
        let mut acc = Acc::new(self.grid.k(), true, self.cfg.collect_flat);
        let st = strata as u64;
        // cells over the 52-bit u field
        let n = 1u64 << 52;
        let w = n / st;
        let mut cells: Vec<(u64, u64)> = vec![(0, 1)];
        let mut b = 1u64;
        while b < w {
            let hi = (b * 2).min(w);
            let tp = (self.cfg.tail_points as u64).min(hi - b).max(1);
            for t in 0..tp {
                cells.push((b + (hi - b) * t / tp, b + (hi - b) * (t + 1) / tp));
            }
            b = hi;
        }
        let lo_cells = cells.clone();
        for i in 1..st - 1 {
            cells.push((i * w, (i + 1) * w));
        }
        let mut hi_cells: Vec<(u64, u64)> = lo_cells.iter().map(|&(l, h)| (n - h, n - l)).collect();
        hi_cells.reverse();
        cells.extend(hi_cells);
        for b in b_lo..b_hi {
            acc.cut();
            for &(lo, hi) in &cells {
                let ub = lo + (hi - lo) / 2;
                let wd = (ub << 12) | (0x5 << 8) | b;
                p.push(wd);
                let cls = self.classify(&p, &mut path);
                let r = self.child_res(&mut p, &mut path, cls, 0, 1);
                p.pop();
                acc.add((hi - lo) as f64 / n as f64 / 256.0, &r, 0.0, &[wd]);
            }
        }
        let mut r = acc.finish();
        r.vlevels += 1;
        Some(r)
    }
}

/// sum partial (already weighted) results of the same node
pub fn merge_partials(parts: Vec<Res>, k: usize, flat: bool) -> Res {
    let mut acc = Acc::new(k, false, flat);
    for r in &parts {
        acc.add(1.0, r, 0.0, &[]);
    }
    let mut out = acc.finish();
    out.vlevels = parts.iter().map(|r| r.vlevels).max().unwrap_or(0);
    out
}
