//! C15: serde round trip to an equal, identically sampling value, for every serde-enabled type and every
//! internal representation variant.

use crate::cases::Tier;
use crate::dev::lambda_words;
use crate::report::Report;
use crate::rng::{ScriptRng, SplitMix};
use rand::distr::Distribution;
use rand_distr::weighted::{WeightedAliasIndex, WeightedTreeIndex};
use rand_distr::*;
use serde_json::json;

struct Ctx<'a> {
    rep: &'a Report,
    evals: u64,
    types: std::collections::BTreeSet<String>,
    variants: u64,
    lam: Vec<u64>,
    seeds: Vec<u64>,
}

fn bits_of<T: serde::Serialize>(x: &T) -> String {
    // outputs are compared through their own (round-trip exact) JSON rendering: bit-exact for floats with float_roundtrip
    serde_json::to_string(x).unwrap_or_default()
}

fn check<D, T>(cx: &mut Ctx, name: &str, d: Option<D>, eq: impl Fn(&D, &D) -> bool)
where
    D: serde::Serialize + serde::de::DeserializeOwned + Distribution<T> + std::fmt::Debug,
    T: serde::Serialize,
{
    let d = match d {
        Some(d) => d,
        None => return,
    };
    cx.types.insert(name.split('(').next().unwrap_or(name).to_string());
    cx.variants += 1;
    let text = match serde_json::to_string(&d) {
        Ok(t) => t,
        Err(e) => {
            cx.rep.violation(format!("{name}|serialize"), format!("{name}: serialisation failed: {e}"), json!({"type": name}));
            return;
        }
    };
    let back: D = match serde_json::from_str(&text) {
        Ok(b) => b,
        Err(e) => {
            cx.rep.violation(format!("{name}|deserialize"), format!("{name}: deserialisation of its own output failed: {e}; text {text}"), json!({"type": name, "text": text}));
            return;
        }
    };
    // second, self-describing in-memory format (serde_json::Value tree) guards against the text format being the culprit
    let back2: Option<D> = serde_json::to_value(&d).ok().and_then(|v| serde_json::from_value(v).ok());
    if !eq(&d, &back) || format!("{:?}", d) != format!("{:?}", back) {
        cx.rep.violation(format!("{name}|not-equal"), format!("{name}: round-tripped value differs: {:?} vs {:?}", d, back), json!({"type": name, "text": text}));
        return;
    }
    if let Some(b2) = &back2 {
        if format!("{:?}", d) != format!("{:?}", b2) {
            cx.rep.violation(format!("{name}|not-equal-value-tree"), format!("{name}: value-tree round trip differs: {:?} vs {:?}", d, b2), json!({"type": name}));
        }
    }
    // identical sampling on base streams and single deviations at the first two positions
    let lam = cx.lam.clone();
    for &s in &cx.seeds.clone() {
        for pos in 0..2usize {
            for wi in 0..=lam.len() {
                if wi == lam.len() && pos > 0 { continue; }
                let mut sm = SplitMix::seeded(s);
                let mut script: Vec<u64> = (0..=pos).map(|_| sm.next()).collect();
                if wi < lam.len() { script[pos] = lam[wi]; }
                let mut r1 = ScriptRng::with_cont(&script, sm);
                let mut r2 = ScriptRng::with_cont(&script, sm);
                let res = std::panic::catch_unwind(std::panic::AssertUnwindSafe(|| crate::exec::in_subject(|| {
                    let mut v = vec![];
                    for _ in 0..3 {
                        v.push((bits_of(&d.sample(&mut r1)), bits_of(&back.sample(&mut r2))));
                    }
                    v
                })));
                cx.evals += 1;
                if let Ok(v) = res {
                    if v.iter().any(|(a, b)| a != b) || r1.pos != r2.pos {
                        cx.rep.violation(format!("{name}|samples-differ"), format!("{name}: the round-tripped value samples differently on the same stream: {:?}", v), json!({"type": name, "text": text, "script_words": crate::report::hex_words(&script)}));
                        return;
                    }
                }
            }
        }
    }
}

pub fn run(tier: Tier, seed: u64) -> i32 {
    let rep = Report::new("C15", "exploration", if tier == Tier::Quick { "quick" } else { "thorough" }, seed);
    let mut cx = Ctx { rep: &rep, evals: 0, types: Default::default(), variants: 0, lam: lambda_words(), seeds: (0..if tier == Tier::Quick { 4 } else { 16 }).map(|i| seed * 1000 + i).collect() };
    macro_rules! both {
        ($name:expr, |$F:ident| $e:expr) => {{
            { type $F = f64; check(&mut cx, &format!("{}<f64>{}", $name.0, $name.1), $e, |a, b| a == b); }
            { type $F = f32; check(&mut cx, &format!("{}<f32>{}", $name.0, $name.1), $e, |a, b| a == b); }
        }};
    }
    for &(m, s) in &[(0.0, 1.0), (2.5, -3.0), (1e6, 0.0)] {
        both!(("Normal", format!("({m},{s})")), |F| Normal::<F>::new(m as F, s as F).ok());
        both!(("LogNormal", format!("({m},{s})")), |F| LogNormal::<F>::new((m as F).min(5.0), s as F).ok());
    }
    for &l in &[0.5, 1.0, 1024.0] { both!(("Exp", format!("({l})")), |F| Exp::<F>::new(l as F).ok()); }
    for &(k, t) in &[(0.3, 1.0), (1.0, 2.0), (2.5, 0.01), (100.0, 50.0)] { both!(("Gamma", format!("({k},{t})")), |F| Gamma::<F>::new(k as F, t as F).ok()); }
    for &k in &[1.0, 0.5, 2.0, 10.0] {
        both!(("ChiSquared", format!("({k})")), |F| ChiSquared::<F>::new(k as F).ok());
        both!(("StudentT", format!("({k})")), |F| StudentT::<F>::new(k as F).ok());
    }
    for &(m, n) in &[(1.0, 1.0), (2.0, 32.0), (0.7, 3.0)] { both!(("FisherF", format!("({m},{n})")), |F| FisherF::<F>::new(m as F, n as F).ok()); }
    for &(a, b) in &[(2.0, 5.0), (5.0, 2.0), (2.0, 2.0), (0.5, 3.0), (3.0, 0.5), (0.5, 0.5), (1.0, 1.0), (1.0001, 0.9999)] { both!(("Beta", format!("({a},{b})")), |F| Beta::<F>::new(a as F, b as F).ok()); }
    for &(mn, mx, mo, sh) in &[(0.0, 1.0, 0.25, 4.0), (-1.0, 1.0, 0.9, 1.0), (10.0, 100.0, 10.0, 20.0)] { both!(("Pert", format!("({mn},{mx},{mo},{sh})")), |F| Pert::<F>::new(mn as F, mx as F).with_shape(sh as F).with_mode(mo as F).ok()); }
    for &(mn, mx, mo) in &[(0.0, 1.0, 0.3), (-5.0, 3.0, 3.0), (2.0, 2.0, 2.0)] { both!(("Triangular", format!("({mn},{mx},{mo})")), |F| Triangular::<F>::new(mn as F, mx as F, mo as F).ok()); }
    for &(a, b) in &[(0.0, 1.0), (10.0, 5.0)] {
        both!(("Cauchy", format!("({a},{b})")), |F| Cauchy::<F>::new(a as F, b as F).ok());
        both!(("Gumbel", format!("({a},{b})")), |F| Gumbel::<F>::new(a as F, b as F).ok());
        both!(("Pareto", format!("({b},{b})")), |F| Pareto::<F>::new(b as F, b as F).ok());
        both!(("Weibull", format!("({b},{b})")), |F| Weibull::<F>::new(b as F, b as F).ok());
        both!(("InverseGaussian", format!("({b},{b})")), |F| InverseGaussian::<F>::new(b as F, b as F).ok());
        both!(("Frechet", format!("({a},{b},2)")), |F| Frechet::<F>::new(a as F, b as F, 2.0).ok());
    }
    for &al in &[0.0, 1.0, -1.0, 0.5] { both!(("SkewNormal", format!("(2,3,{al})")), |F| SkewNormal::<F>::new(2.0, 3.0, al as F).ok()); }
    for &(a, b) in &[(1.0, 0.0), (2.0, -1.0), (10.0, 3.0)] { both!(("NormalInverseGaussian", format!("({a},{b})")), |F| NormalInverseGaussian::<F>::new(a as F, b as F).ok()); }
    for &l in &[0.5, 11.99, 12.0, 100.0, 1e6] { both!(("Poisson", format!("({l})")), |F| Poisson::<F>::new(l as F).ok()); }
    // extremes of the accepted parameter ranges (finite internal state only)
    for &l in &[f64::MIN_POSITIVE, 1e-300, 1e-20, 5e-17, 1e15] { both!(("Poisson", format!("({l:e})")), |F| Poisson::<F>::new(l as F).ok()); }
    for &v in &[1e-30, 1e-5, 1e5, 1e30] {
        both!(("Gamma", format!("({v:e},1)")), |F| Gamma::<F>::new(v as F, 1.0).ok());
        both!(("Gamma", format!("(2,{v:e})")), |F| Gamma::<F>::new(2.0, v as F).ok());
        both!(("Beta", format!("({v:e},2)")), |F| Beta::<F>::new(v as F, 2.0).ok());
        both!(("ChiSquared", format!("({v:e})")), |F| ChiSquared::<F>::new(v as F).ok());
        both!(("Weibull", format!("(1,{v:e})")), |F| Weibull::<F>::new(1.0, v as F).ok());
        both!(("Pareto", format!("({v:e},1)")), |F| Pareto::<F>::new(v as F, 1.0).ok());
        both!(("Normal", format!("({v:e},{v:e})")), |F| Normal::<F>::new(v as F, v as F).ok());
        both!(("InverseGaussian", format!("({v:e},1)")), |F| InverseGaussian::<F>::new(v as F, 1.0).ok());
    }
    for &(n, p) in &[(1000u64, 1e-20), (u64::MAX, 1e-300), (u64::MAX, 0.5), (1, 0.5), (0, 0.3)] { check(&mut cx, &format!("Binomial({n},{p:e})"), Binomial::new(n, p).ok(), |a, b| a == b); }
    // Binomial over a grid that crosses every method switch (Constant / Binv / Btpe / Poisson limit, p > 0.5 flip) and
    // contains the parameter sets with two equal modes ((n + 1) p an integer) and with n p an integer
    for n in [1u64, 2, 9, 10, 19, 20, 39, 49, 74, 99, 100, 109, 199, 999, 1000] {
        for k in 0..=100u32 {
            let p = k as f64 / 100.0;
            check(&mut cx, &format!("Binomial({n},{p})"), Binomial::new(n, p).ok(), |a, b| a == b);
        }
        for k in 1..=n.min(40) {
            let p = k as f64 * ((n / 40).max(1)) as f64 / (n + 1) as f64;
            check(&mut cx, &format!("Binomial({n},{k}*/(n+1))"), Binomial::new(n, p).ok(), |a, b| a == b);
        }
    }
    for &(n, p) in &[(20u64, 0.3), (20, 0.7), (100, 0.4), (100, 0.6), (1 << 62, 1e-19), (7, 0.0), (7, 1.0), (1 << 53, 0.5)] { check(&mut cx, &format!("Binomial({n},{p})"), Binomial::new(n, p).ok(), |a, b| a == b); }
    for &p in &[1.0, 0.9, 0.5, 0.01, 1e-12, 0.0] { check(&mut cx, &format!("Geometric({p})"), Geometric::new(p).ok(), |a, b| a == b); }
    for &(nn, kk, n) in &[(60u64, 30u64, 17u64), (500, 400, 30), (10100, 10000, 1000), (250, 200, 230), (1 << 40, 1 << 39, 1 << 20)] { check(&mut cx, &format!("Hypergeometric({nn},{kk},{n})"), Hypergeometric::new(nn, kk, n).ok(), |a, b| a == b); }
    // exhaustive small Hypergeometric (every reflection K <-> N-K, n <-> N-n, equal and extreme parameters), and grids
    // crossing the method switches of the other discrete and of the shape-driven continuous families
    for nn in 0..=16u64 {
        for kk in 0..=nn {
            for n in 0..=nn {
                check(&mut cx, &format!("Hypergeometric({nn},{kk},{n})"), Hypergeometric::new(nn, kk, n).ok(), |a, b| a == b);
            }
        }
    }
    for i in 0..=120u32 {
        let l = 0.05 + i as f64 * 0.3325;
        both!(("Poisson", format!("({l})")), |F| Poisson::<F>::new(l as F).ok());
        let p = i as f64 / 120.0;
        check(&mut cx, &format!("Geometric({p})"), Geometric::new(p).ok(), |a, b| a == b);
    }
    for i in 0..=24u32 {
        let a = 0.125 * i as f64;
        for j in 0..=6u32 {
            let b = [0.25, 0.5, 1.0, 1.5, 2.0, 3.0, 8.0][j as usize];
            both!(("Gamma", format!("({a},{b})")), |F| Gamma::<F>::new(a as F, b as F).ok());
            both!(("Beta", format!("({a},{b})")), |F| Beta::<F>::new(a as F, b as F).ok());
            both!(("FisherF", format!("({a},{b})")), |F| FisherF::<F>::new(a as F, b as F).ok());
        }
        both!(("ChiSquared", format!("({a})")), |F| ChiSquared::<F>::new(a as F).ok());
        both!(("StudentT", format!("({a})")), |F| StudentT::<F>::new(a as F).ok());
    }
    check::<_, f64>(&mut cx, "StandardNormal", Some(StandardNormal), |_, _| true);
    check::<_, f64>(&mut cx, "Exp1", Some(Exp1), |_, _| true);
    check::<_, u64>(&mut cx, "StandardGeometric", Some(StandardGeometric), |_, _| true);
    check::<_, [f64; 2]>(&mut cx, "UnitCircle", Some(UnitCircle), |_, _| true);
    check::<_, [f64; 2]>(&mut cx, "UnitDisc", Some(UnitDisc), |_, _| true);
    check::<_, [f32; 3]>(&mut cx, "UnitSphere", Some(UnitSphere), |_, _| true);
    check::<_, [f32; 3]>(&mut cx, "UnitBall", Some(UnitBall), |_, _| true);
    // weighted indices of several lengths, integer and float weights (WeightedAliasIndex has no PartialEq: Debug equality)
    let float_ws: Vec<Vec<f64>> = vec![vec![1.0], vec![0.3, 0.7], vec![2.85, 8.3, 5.67, 3.28, 6.62], (0..33).map(|i| 0.1 + (i as f64) * 0.37).collect(), vec![0.1, 0.2, 0.3, 1e-3, 7.77, 0.01, 3.3]];
    let int_ws: Vec<Vec<u32>> = vec![vec![1], vec![3, 7], vec![1000, 2500, 4000, 500], (0..33).map(|i| (i * 7 + 1) as u32).collect()];
    for w in &float_ws {
        check::<_, usize>(&mut cx, &format!("WeightedAliasIndex<f64>(len={})", w.len()), WeightedAliasIndex::new(w.clone()).ok(), |a, b| format!("{:?}", a) == format!("{:?}", b));
        check::<_, usize>(&mut cx, &format!("WeightedTreeIndex<f64>(len={})", w.len()), WeightedTreeIndex::new(w.clone()).ok(), |a, b| a == b);
        let w32: Vec<f32> = w.iter().map(|&x| x as f32).collect();
        check::<_, usize>(&mut cx, &format!("WeightedTreeIndex<f32>(len={})", w.len()), WeightedTreeIndex::new(w32).ok(), |a, b| a == b);
    }
    for w in &int_ws {
        check::<_, usize>(&mut cx, &format!("WeightedAliasIndex<u32>(len={})", w.len()), WeightedAliasIndex::new(w.clone()).ok(), |a, b| format!("{:?}", a) == format!("{:?}", b));
        check::<_, usize>(&mut cx, &format!("WeightedTreeIndex<u32>(len={})", w.len()), WeightedTreeIndex::new(w.clone()).ok(), |a, b| a == b);
        let w64: Vec<i64> = w.iter().map(|&x| x as i64).collect();
        check::<_, usize>(&mut cx, &format!("WeightedTreeIndex<i64>(len={})", w.len()), WeightedTreeIndex::new(w64).ok(), |a, b| a == b);
    }
    // float trees after update histories (internal subtotals are not what new() would build)
    {
        let mut sm = SplitMix::seeded(seed ^ 0x77);
        for t in 0..if tier == Tier::Quick { 300 } else { 3000 } {
            let n = 3 + (sm.next() % 6) as usize;
            let w: Vec<f64> = (0..n).map(|_| ((sm.next() % 1000) as f64) / 100.0).collect();
            if let Ok(mut tr) = WeightedTreeIndex::new(w.clone()) {
                let _ = tr.update((sm.next() % n as u64) as usize, ((sm.next() % 1000) as f64) / 100.0);
                let _ = tr.push(((sm.next() % 1000) as f64) / 100.0);
                if t % 2 == 0 { let _ = tr.pop(); }
                check::<_, usize>(&mut cx, &format!("WeightedTreeIndex<f64>(history #{})", t % 4), Some(tr), |a, b| a == b);
            }
        }
    }
    let (evals, types, variants) = (cx.evals, cx.types.len(), cx.variants);
    rep.set("evaluations", json!(evals));
    rep.set("distinct_nontrivial", json!(variants));
    rep.set("rule", json!("every serde-enabled distribution type x parameter sets covering each internal representation variant; per value: JSON text (float_roundtrip) and value-tree round trips, equality, Debug equality, and identical 3-sample sequences on base streams and every single deviation at the first two requests; distinct = (type, parameter set) pairs"));
    rep.set("types", json!(types));
    rep.set("types_without_serde_impl_not_judged", json!(["Zipf", "Zeta", "Dirichlet"]));
    rep.set("not_covered", json!("values whose internal state holds a non-finite float (Exp(0), Gamma(_, inf)): JSON cannot carry infinities (a limitation of the format, not of the crate)"));
    rep.set("exhaustive", json!(false));
    rep.sample(json!({"type": "Beta<f64>(5,2)", "text": serde_json::to_string(&Beta::<f64>::new(5.0, 2.0).unwrap()).unwrap_or_default()}));
    rep.sample(json!({"type": "Binomial(100,0.6)", "text": serde_json::to_string(&Binomial::new(100, 0.6).unwrap()).unwrap_or_default()}));
    rep.assume("serde_json with float_roundtrip is the self-describing text format; a second in-memory value tree guards against the text format itself");
    rep.finish()
}
