//! Evidence files, violation / known-finding protocol, replay artefacts.

use serde_json::{Map, Value, json};
use std::collections::BTreeMap;
use std::sync::Mutex;
use std::time::Instant;

pub const VERIF_DIR: &str = "/verif";

#[derive(Clone, Debug)]
pub struct Finding {
    /// stable key: `<family>|<float type>|<outcome kind>|<how reached>`
    pub key: String,
    pub what: String,
    pub replay: Value,
}

pub struct Report {
    pub prop: &'static str,
    pub tier: String,
    pub seed: u64,
    pub level: &'static str,
    start: Instant,
    pub cov: Mutex<Map<String, Value>>,
    pub assumptions: Mutex<Vec<String>>,
    findings: Mutex<BTreeMap<String, (Finding, u64)>>,
    pub samples: Mutex<Vec<Value>>,
}

#[derive(serde::Deserialize, Debug, Clone)]
pub struct KnownEntry {
    pub property: String,
    pub status: String,
    /// a finding key matches when it starts with this prefix
    pub key_prefix: String,
    pub what: String,
    #[serde(default)]
    pub commit: Option<String>,
}

pub fn load_known() -> Vec<KnownEntry> {
    let p = format!("{VERIF_DIR}/known_findings.json");
    match std::fs::read_to_string(&p) {
        Ok(s) => serde_json::from_str::<Vec<KnownEntry>>(&s).unwrap_or_else(|e| {
            eprintln!("machinery error: cannot parse {p}: {e}");
            std::process::exit(2)
        }),
        Err(_) => vec![],
    }
}

impl Report {
    pub fn new(prop: &'static str, level: &'static str, tier: &str, seed: u64) -> Self {
        // replay artefacts of earlier runs of this property are stale
        if let Ok(rd) = std::fs::read_dir(format!("{VERIF_DIR}/replays")) {
            for e in rd.flatten() {
                let n = e.file_name().to_string_lossy().to_string();
                if n.starts_with(&format!("{prop}-")) && n.ends_with(".json") {
                    let _ = std::fs::remove_file(e.path());
                }
            }
        }
        Report {
            prop,
            tier: tier.to_string(),
            seed,
            level,
            start: Instant::now(),
            cov: Mutex::new(Map::new()),
            assumptions: Mutex::new(vec![]),
            findings: Mutex::new(BTreeMap::new()),
            samples: Mutex::new(vec![]),
        }
    }
    pub fn elapsed(&self) -> f64 {
        self.start.elapsed().as_secs_f64()
    }
    pub fn set(&self, k: &str, v: Value) {
        self.cov.lock().unwrap().insert(k.to_string(), v);
    }
    pub fn add(&self, k: &str, n: u64) {
        let mut c = self.cov.lock().unwrap();
        let cur = c.get(k).and_then(|v| v.as_u64()).unwrap_or(0);
        c.insert(k.to_string(), json!(cur + n));
    }
    pub fn assume(&self, s: &str) {
        let mut a = self.assumptions.lock().unwrap();
        if !a.iter().any(|x| x == s) {
            a.push(s.to_string());
        }
    }
    pub fn sample(&self, v: Value) {
        let mut s = self.samples.lock().unwrap();
        if s.len() < 24 {
            s.push(v);
        }
    }
    /// Record a violation. Findings with the same key are counted, the first is kept.
    pub fn violation(&self, key: String, what: String, replay: Value) {
        let mut f = self.findings.lock().unwrap();
        f.entry(key.clone())
            .and_modify(|e| e.1 += 1)
            .or_insert((Finding { key, what, replay }, 1));
    }
    pub fn n_findings(&self) -> usize {
        self.findings.lock().unwrap().len()
    }

    /// Write evidence, print KNOWN-FINDING / VIOLATION lines, return the exit code.
    pub fn finish(self) -> i32 {
        let known = load_known();
        // constructors of envelope cases that panicked (valid parameters by construction of E): the property cannot
        // hold for a parameter set whose distribution cannot even be built
        for (label, msg) in crate::exec::CTOR_PANICS.lock().unwrap().iter() {
            self.violation(format!("{label}|ctor-panic"), format!("the constructor panicked on a parameter set of the envelope: {msg}"), json!({"case": label, "panic": msg}));
        }
        let findings = self.findings.into_inner().unwrap();
        let mut unlisted = 0u64;
        let mut known_hit: BTreeMap<usize, u64> = BTreeMap::new();
        let mut lines = vec![];
        for (key, (f, count)) in &findings {
            let hit = known.iter().position(|k| {
                k.property == self.prop && k.status == "known" && key.starts_with(&k.key_prefix)
            });
            match hit {
                Some(i) => {
                    *known_hit.entry(i).or_insert(0) += count;
                }
                None => {
                    unlisted += 1;
                    let h = fnv(key.as_bytes());
                    let path = format!("{VERIF_DIR}/replays/{}-{:016x}.json", self.prop, h);
                    let body = json!({
                        "property": self.prop, "key": key, "what": f.what,
                        "occurrences_this_run": count, "replay": f.replay,
                    });
                    let _ = std::fs::create_dir_all(format!("{VERIF_DIR}/replays"));
                    let _ = std::fs::write(&path, serde_json::to_string_pretty(&body).unwrap());
                    if lines.len() < 40 {
                        lines.push(format!(
                            "VIOLATION property={} replay={}   # {} :: {}",
                            self.prop, path, key, f.what
                        ));
                    }
                }
            }
        }
        for (i, n) in &known_hit {
            println!(
                "KNOWN-FINDING: property={} {} [{} occurrence(s) this run; key prefix {}]",
                self.prop, known[*i].what, n, known[*i].key_prefix
            );
        }
        for l in &lines {
            println!("{l}");
        }
        if unlisted as usize > lines.len() {
            println!("... and {} more violation keys (see /verif/replays)", unlisted as usize - lines.len());
        }
        let mut cov = self.cov.into_inner().unwrap();
        let samples = self.samples.into_inner().unwrap();
        if !cov.contains_key("samples") {
            cov.insert("samples".into(), Value::Array(samples));
        }
        let ev = json!({
            "property_id": self.prop,
            "tier": self.tier,
            "seed": self.seed,
            "level": self.level,
            "coverage": Value::Object(cov),
            "assumptions": self.assumptions.into_inner().unwrap(),
            "wall_s": (self.start.elapsed().as_secs_f64() * 1000.0).round() / 1000.0,
            "violations": unlisted,
            "known_findings_seen": known_hit.len(),
        });
        let _ = std::fs::create_dir_all(format!("{VERIF_DIR}/evidence"));
        let path = format!("{VERIF_DIR}/evidence/{}.json", self.prop);
        if let Err(e) = std::fs::write(&path, serde_json::to_string_pretty(&ev).unwrap()) {
            eprintln!("machinery error: cannot write {path}: {e}");
            return 2;
        }
        if unlisted > 0 { 1 } else {
            println!("OK property={} tier={} wall={:.1}s", self.prop, self.tier, self.start.elapsed().as_secs_f64());
            0
        }
    }
}

/// End the run because a call into the code under test never returned (see `exec::start_hang_monitor`).
pub fn hang_exit(prop: &str, tier: &str, label: &str, secs: f64) -> ! {
    let key = format!("hang|{label}");
    let what = format!("{label}: a call into the code under test had not returned after {secs:.0} s (no random words drawn meanwhile); the run was ended, coverage of this run is incomplete");
    let known = load_known();
    let hit = known.iter().find(|k| k.property == prop && k.status == "known" && (key.starts_with(&k.key_prefix) || k.key_prefix.contains(label) && !label.is_empty()));
    let _ = std::fs::create_dir_all(format!("{VERIF_DIR}/replays"));
    let _ = std::fs::create_dir_all(format!("{VERIF_DIR}/evidence"));
    let path = format!("{VERIF_DIR}/replays/{prop}-{:016x}.json", fnv(key.as_bytes()));
    let _ = std::fs::write(&path, serde_json::to_string_pretty(&json!({"property": prop, "key": key, "what": what, "replay": {"case": label, "how": "construct the case and call sample() on the streams of the deviation sweep of this property (engine D lists the script when it meets the same call)"}})).unwrap());
    let calls = crate::exec::total_subject_calls().max(1);
    let ev = json!({"property_id": prop, "tier": tier, "seed": 0, "level": "exploration",
        "coverage": {"ended_by_hang_monitor": label, "evaluations": calls, "distinct_nontrivial": 2,
            "rule": "calls into the code under test made before the run was ended; two outcome classes were observed: calls that returned and one that did not",
            "samples": [{"case": label, "outcome": "did not return"}], "exhaustive": false},
        "assumptions": ["the run was ended by the hang monitor: coverage is that of an interrupted run"], "wall_s": 0.0,
        "violations": if hit.is_some() { 0 } else { 1 }, "known_findings_seen": if hit.is_some() { 1 } else { 0 }});
    let _ = std::fs::write(format!("{VERIF_DIR}/evidence/{prop}.json"), serde_json::to_string_pretty(&ev).unwrap());
    match hit {
        Some(k) => {
            println!("KNOWN-FINDING: property={prop} {} [met by the hang monitor at {label}]", k.what);
            std::process::exit(0)
        }
        None => {
            println!("VIOLATION property={prop} replay={path}   # {key} :: {what}");
            std::process::exit(1)
        }
    }
}

pub fn fnv(b: &[u8]) -> u64 {
    let mut h = 0xcbf29ce484222325u64;
    for &x in b {
        h ^= x as u64;
        h = h.wrapping_mul(0x100000001b3);
    }
    h
}

pub fn hex_words(w: &[u64]) -> Vec<String> {
    w.iter().map(|x| format!("0x{x:016x}")).collect()
}
