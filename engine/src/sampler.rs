//! Type-erased access to the real samplers.

use crate::rng::ScriptRng;
use rand::distr::Distribution;
use std::any::Any;
use std::fmt::Debug;
use std::marker::PhantomData;
use std::sync::Arc;

#[derive(Clone, Copy, Debug, PartialEq)]
pub struct Sample {
    /// value used for law checks (lossless for f32/f64, `as f64` for integers, a projection for vectors)
    pub v: f64,
    /// native bit pattern (or a hash of all component bit patterns) for bit-exact comparisons
    pub bits: u64,
    /// support / sanity violation detected on the native value
    pub bad: Option<&'static str>,
}

pub trait Sampler: Send + Sync {
    fn sample(&self, rng: &mut ScriptRng) -> Sample;
    fn debug(&self) -> String;
    fn clone_box(&self) -> Box<dyn Sampler>;
    fn eq_dyn(&self, o: &dyn Sampler) -> bool;
    fn as_any(&self) -> &dyn Any;
    /// bits of the first `n` values of `sample_iter`
    fn iter_bits(&self, rng: &mut ScriptRng, n: usize) -> Vec<u64>;
}

pub trait Out: Copy + Send + Sync + 'static {
    fn v(self) -> f64;
    fn bits(self) -> u64;
}
impl Out for f64 {
    #[inline]
    fn v(self) -> f64 {
        self
    }
    #[inline]
    fn bits(self) -> u64 {
        self.to_bits()
    }
}
impl Out for f32 {
    #[inline]
    fn v(self) -> f64 {
        self as f64
    }
    #[inline]
    fn bits(self) -> u64 {
        self.to_bits() as u64
    }
}
impl Out for u64 {
    #[inline]
    fn v(self) -> f64 {
        self as f64
    }
    #[inline]
    fn bits(self) -> u64 {
        self
    }
}
impl Out for usize {
    #[inline]
    fn v(self) -> f64 {
        self as f64
    }
    #[inline]
    fn bits(self) -> u64 {
        self as u64
    }
}

pub type Chk<T> = Arc<dyn Fn(T) -> Option<&'static str> + Send + Sync>;

/// scalar-valued distribution
pub struct Sc<D, T> {
    pub d: D,
    pub chk: Chk<T>,
    _p: PhantomData<fn() -> T>,
}
impl<D, T> Sc<D, T> {
    pub fn new(d: D, chk: Chk<T>) -> Self {
        Sc { d, chk, _p: PhantomData }
    }
}
impl<D, T> Sampler for Sc<D, T>
where
    D: Distribution<T> + Clone + PartialEq + Debug + Send + Sync + 'static,
    T: Out,
{
    #[inline]
    fn sample(&self, rng: &mut ScriptRng) -> Sample {
        let x: T = self.d.sample(rng);
        Sample { v: x.v(), bits: x.bits(), bad: (self.chk)(x) }
    }
    fn debug(&self) -> String {
        format!("{:?}", self.d)
    }
    fn clone_box(&self) -> Box<dyn Sampler> {
        Box::new(Sc { d: self.d.clone(), chk: self.chk.clone(), _p: PhantomData })
    }
    fn eq_dyn(&self, o: &dyn Sampler) -> bool {
        o.as_any().downcast_ref::<Self>().is_some_and(|o| o.d == self.d)
    }
    fn as_any(&self) -> &dyn Any {
        self
    }
    fn iter_bits(&self, rng: &mut ScriptRng, n: usize) -> Vec<u64> {
        let d = self.d.clone();
        d.sample_iter(rng).take(n).map(|x: T| x.bits()).collect()
    }
}

/// vector-valued distribution ([F;2], [F;3], Vec<F>) observed through a scalar projection
pub trait VecOut: Send + Sync + 'static {
    fn comps(&self) -> Vec<f64>;
    fn hash_bits(&self) -> u64;
}
fn mix(h: u64, x: u64) -> u64 {
    (h ^ x).wrapping_mul(0x100000001b3).rotate_left(23) ^ 0x9E3779B97F4A7C15
}
macro_rules! impl_vecout {
    ($t:ty, $f:ty) => {
        impl VecOut for $t {
            fn comps(&self) -> Vec<f64> {
                self.iter().map(|&x| x as f64).collect()
            }
            fn hash_bits(&self) -> u64 {
                self.iter().fold(0xcbf29ce484222325u64 ^ (self.len() as u64), |h, &x| mix(h, x.to_bits() as u64))
            }
        }
    };
}
impl_vecout!([f64; 2], f64);
impl_vecout!([f32; 2], f32);
impl_vecout!([f64; 3], f64);
impl_vecout!([f32; 3], f32);
impl_vecout!(Vec<f64>, f64);
impl_vecout!(Vec<f32>, f32);

pub type Proj = Arc<dyn Fn(&[f64]) -> f64 + Send + Sync>;
pub type VChk = Arc<dyn Fn(&[f64]) -> Option<&'static str> + Send + Sync>;

pub struct Vc<D, T> {
    pub d: D,
    pub proj: Proj,
    pub chk: VChk,
    _p: PhantomData<fn() -> T>,
}
impl<D, T> Vc<D, T> {
    pub fn new(d: D, proj: Proj, chk: VChk) -> Self {
        Vc { d, proj, chk, _p: PhantomData }
    }
}
impl<D, T> Sampler for Vc<D, T>
where
    D: Distribution<T> + Clone + PartialEq + Debug + Send + Sync + 'static,
    T: VecOut,
{
    fn sample(&self, rng: &mut ScriptRng) -> Sample {
        let x: T = self.d.sample(rng);
        let c = x.comps();
        Sample { v: (self.proj)(&c), bits: x.hash_bits(), bad: (self.chk)(&c) }
    }
    fn debug(&self) -> String {
        format!("{:?}", self.d)
    }
    fn clone_box(&self) -> Box<dyn Sampler> {
        Box::new(Vc { d: self.d.clone(), proj: self.proj.clone(), chk: self.chk.clone(), _p: PhantomData })
    }
    fn eq_dyn(&self, o: &dyn Sampler) -> bool {
        o.as_any().downcast_ref::<Self>().is_some_and(|o| o.d == self.d)
    }
    fn as_any(&self) -> &dyn Any {
        self
    }
    fn iter_bits(&self, rng: &mut ScriptRng, n: usize) -> Vec<u64> {
        let d = self.d.clone();
        d.sample_iter(rng).take(n).map(|x: T| x.hash_bits()).collect()
    }
}

/// Unit-struct distributions (StandardNormal, Exp1, ...) do not implement PartialEq.
#[derive(Clone, Copy, Debug)]
pub struct Unit<D>(pub D);
impl<D> PartialEq for Unit<D> {
    fn eq(&self, _: &Self) -> bool {
        true
    }
}
impl<D: Distribution<T>, T> Distribution<T> for Unit<D> {
    #[inline]
    fn sample<R: rand::Rng + ?Sized>(&self, rng: &mut R) -> T {
        self.0.sample(rng)
    }
}
