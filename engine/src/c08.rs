//! C08: WeightedAliasIndex encodes and samples exactly the given weights. Exhaustive over all vectors up to a
//! length over a small alphabet per weight type; for small sums every (column, threshold) execution.

use crate::cases::Tier;
use crate::exec::in_subject;
use crate::report::Report;
use crate::rng::ScriptRng;
use rand::distr::{Distribution, Uniform};
use rand_distr::weighted::{AliasableWeight, Error as WErr, WeightedAliasIndex};
use serde_json::json;
use std::fmt::Debug;
use std::panic::{AssertUnwindSafe, catch_unwind};

pub trait AW: AliasableWeight + Debug + PartialEq + Send + Sync + 'static {
    const NAME: &'static str;
    const IS_FLOAT: bool;
    fn alphabet(len: usize) -> Vec<Self>;
    fn as_f(&self) -> f64;
    fn as_i(&self) -> i128;
    fn max_f() -> f64;
    fn from_u(x: u64) -> Self;
    fn eps() -> f64;
}
macro_rules! aw_int {
    ($t:ty, $signed:expr) => {
        impl AW for $t {
            const NAME: &'static str = stringify!($t);
            const IS_FLOAT: bool = false;
            fn alphabet(len: usize) -> Vec<Self> {
                let m = (<$t>::MAX as u128 / len.max(1) as u128) as $t;
                let mut v: Vec<$t> = vec![0, 1, 2, 3, m, m.saturating_sub(1), m.saturating_add(1)];
                if $signed { v.push((0 as $t).wrapping_sub(1)); }
                v.sort();
                v.dedup();
                v
            }
            fn as_f(&self) -> f64 { *self as f64 }
            fn as_i(&self) -> i128 { *self as i128 }
            fn max_f() -> f64 { <$t>::MAX as f64 }
            fn from_u(x: u64) -> Self { x as $t }
            fn eps() -> f64 { 0.0 }
        }
    };
}
aw_int!(u8, false);
aw_int!(u16, false);
aw_int!(u32, false);
aw_int!(u64, false);
aw_int!(usize, false);
aw_int!(i8, true);
aw_int!(i16, true);
aw_int!(i32, true);
aw_int!(i64, true);
macro_rules! aw_int128 {
    ($t:ty, $signed:expr) => {
        impl AW for $t {
            const NAME: &'static str = stringify!($t);
            const IS_FLOAT: bool = false;
            fn alphabet(len: usize) -> Vec<Self> {
                let m = <$t>::MAX / (len.max(1) as $t);
                let mut v: Vec<$t> = vec![0, 1, 2, 3, m, m - 1, m.saturating_add(1)];
                if $signed { v.push((0 as $t).wrapping_sub(1)); }
                v.sort();
                v.dedup();
                v
            }
            fn as_f(&self) -> f64 { *self as f64 }
            fn as_i(&self) -> i128 { if $signed { *self as i128 } else { (*self).min(i128::MAX as $t) as i128 } }
            fn max_f() -> f64 { <$t>::MAX as f64 }
            fn from_u(x: u64) -> Self { x as $t }
            fn eps() -> f64 { 0.0 }
        }
    };
}
aw_int128!(u128, false);
aw_int128!(i128, true);
macro_rules! aw_float {
    ($t:ty) => {
        impl AW for $t {
            const NAME: &'static str = stringify!($t);
            const IS_FLOAT: bool = true;
            fn alphabet(len: usize) -> Vec<Self> {
                // the per-length maximum MAX/len (documented as the largest accepted weight) and its predecessor
                let m = <$t>::MAX / (len.max(1) as $t);
                vec![0.0, 1.0, 2.0, 0.3, 1e-30, 1e30, -1.0, <$t>::NAN, -0.0, <$t>::INFINITY, m, m * (1.0 - <$t>::EPSILON)]
            }
            fn as_f(&self) -> f64 { *self as f64 }
            fn as_i(&self) -> i128 { 0 }
            fn max_f() -> f64 { <$t>::MAX as f64 }
            fn from_u(x: u64) -> Self { x as $t }
            fn eps() -> f64 { <$t>::EPSILON as f64 }
        }
    };
}
aw_float!(f32);
aw_float!(f64);

#[derive(Default)]
pub struct AStats {
    vectors: u64,
    accepted: u64,
    execs: u64,
    exact_vectors: u64,
}

/// find a word for which the environment's own `Uniform::new(lo, hi)` returns `t` using exactly one word
fn probe_word<T: rand::distr::uniform::SampleUniform + PartialEq + Copy>(u: &Uniform<T>, t: T, guess: u64) -> Option<u64> {
    for d in [0i64, 1, -1, 2, -2, 4, -4, 1 << 32, -(1 << 32), 1 << 33, -(1 << 33)] {
        let w = guess.wrapping_add(d as u64);
        let ww = [w];
        let mut r = ScriptRng::new(&ww, 0);
        let v = u.sample(&mut r);
        if v == t && r.pos == 1 && !r.overrun {
            return Some(w);
        }
    }
    None
}

fn check_vector<W: AW>(rep: &Report, ws: &[W], st: &mut AStats, exact_budget: u64)
where
    Uniform<W>: Clone,
{
    st.vectors += 1;
    let tn = W::NAME;
    let n = ws.len();
    let viol = |kind: &str, what: String| {
        rep.violation(format!("WeightedAliasIndex<{tn}>|{kind}"), format!("WeightedAliasIndex<{tn}>::new({:?}): {what}", ws), json!({"type": tn, "weights": format!("{:?}", ws), "what": what}));
    };
    // documented verdict
    let maxw = W::max_f() / n.max(1) as f64;
    let exp: Option<WErr> = if n == 0 {
        Some(WErr::InvalidInput)
    } else if ws.iter().any(|w| !(w.as_f() >= 0.0) || (if W::IS_FLOAT { w.as_f() > maxw } else { w.as_i() > (W::max_f() as i128 / n as i128).max(if W::max_f() >= 1.7e38 { i128::MAX / n as i128 } else { 0 }) && (w.as_f() > maxw * (1.0 + 1e-9)) })) {
        Some(WErr::InvalidWeight)
    } else if ws.iter().all(|w| w.as_f() == 0.0) {
        Some(WErr::InsufficientNonZero)
    } else {
        None
    };
    let wv = ws.to_vec();
    let r = catch_unwind(AssertUnwindSafe(|| in_subject(|| WeightedAliasIndex::new(wv))));
    let a = match r {
        Err(_) => { viol("panic", format!("panicked: {}", crate::exec::last_panic())); return; }
        Ok(Err(e)) => {
            // the per-length maximum is an integer division for integer types: accept InvalidWeight exactly at the boundary handled by the alphabet
            let boundary = !W::IS_FLOAT && e == WErr::InvalidWeight && exp.is_none() && ws.iter().any(|w| w.as_f() >= maxw.floor());
            if exp != Some(e) && !boundary { viol("wrong-verdict", format!("returned Err({:?}), the documentation implies {:?}", e, exp)); }
            return;
        }
        Ok(Ok(a)) => {
            if let Some(e) = exp {
                let boundary = !W::IS_FLOAT && e == WErr::InvalidWeight && ws.iter().all(|w| w.as_f() >= 0.0 && w.as_f() <= maxw.floor() + 1.0) ;
                if !boundary { viol("accepted", format!("accepted although the documentation implies Err({:?})", e)); }
                if !boundary { return; }
            }
            a
        }
    };
    st.accepted += 1;
    // weights() reconstruction
    match catch_unwind(AssertUnwindSafe(|| in_subject(|| a.weights()))) {
        Err(_) => { viol("panic", format!("weights() panicked: {}", crate::exec::last_panic())); return; }
        Ok(rec) => {
            if rec.len() != n { viol("weights", format!("weights() has length {}", rec.len())); return; }
            let total: f64 = ws.iter().map(|w| w.as_f()).sum();
            for i in 0..n {
                let ok = if W::IS_FLOAT { (rec[i].as_f() - ws[i].as_f()).abs() <= n as f64 * 8.0 * W::eps() * total.max(ws[i].as_f()) } else { rec[i] == ws[i] };
                if !ok {
                    // float vectors holding the per-length maximum are keyed separately (w * len is not representable)
                    let at_max = W::IS_FLOAT && ws.iter().any(|w| w.as_f() >= 0.999 * W::max_f() / n as f64);
                    viol(if at_max { "weights|per-length-maximum" } else { "weights" }, format!("weights() = {:?} does not reconstruct the input", rec));
                    if at_max {
                        // a recorded finding of weights() only: sampling of such vectors is still checked below
                        break;
                    }
                    return;
                }
            }
        }
    }
    let clone = a.clone();
    // sampling
    let sum_i: i128 = ws.iter().fold(0i128, |a, w| a.saturating_add(w.as_i()));
    let sum_f: f64 = ws.iter().map(|w| w.as_f()).sum();
    let col = Uniform::new(0u32, n as u32).unwrap();
    let mut col_words = vec![];
    for c in 0..n as u32 {
        let guess = (((c as u128) << 64) / n as u128 + (1u128 << 63) / n as u128) as u64;
        match probe_word(&col, c, guess) { Some(w) => col_words.push(w), None => return }
    }
    let mut counts = vec![0i128; n];
    let mut run = |words: &[u64], st: &mut AStats| -> Option<usize> {
        let mut r1 = ScriptRng::new(words, 3);
        let mut r2 = ScriptRng::new(words, 3);
        st.execs += 1;
        let x = catch_unwind(AssertUnwindSafe(|| in_subject(|| (a.sample(&mut r1), clone.sample(&mut r2)))));
        match x {
            Err(_) => { viol("panic", format!("sample panicked on words {:x?}: {}", words, crate::exec::last_panic())); None }
            Ok((i, j)) => {
                if i != j || r1.pos != r2.pos { viol("clone", format!("a clone samples differently on words {:x?}: {} vs {}", words, i, j)); return None; }
                if i >= n { viol("bad-index", format!("returned index {i} >= len")); return None; }
                if ws[i].as_f() == 0.0 { viol("zero-weight", format!("returned index {i}, whose weight is zero (words {:x?})", words)); return None; }
                Some(i)
            }
        }
    };
    if !W::IS_FLOAT && sum_i > 0 && (sum_i as u64) <= exact_budget && std::mem::size_of::<W>() <= 8 {
        // every (column, threshold) pair
        st.exact_vectors += 1;
        let zero = W::from_u(0);
        let thr = match Uniform::new(zero, W::from_u(sum_i as u64)) { Ok(u) => u, Err(_) => return };
        let mut thr_words = vec![];
        for t in 0..sum_i as u64 {
            let guess = (((t as u128) << 64) / sum_i as u128 + (1u128 << 63) / sum_i as u128) as u64;
            match probe_word(&thr, W::from_u(t), guess) { Some(w) => thr_words.push(w), None => return }
        }
        for &cw in &col_words {
            for &tw in &thr_words {
                match run(&[cw, tw], st) { Some(i) => counts[i] += 1, None => return }
            }
        }
        for i in 0..n {
            if counts[i] != n as i128 * ws[i].as_i() {
                viol("not-exact", format!("over all {} (column, threshold) executions index {i} is returned {} times, exactness requires len*w_i = {}", n as i128 * sum_i, counts[i], n as i128 * ws[i].as_i()));
                return;
            }
        }
    } else if sum_f.is_finite() && sum_f > 0.0 {
        // equispaced threshold words (midpoints), plus both extremes
        let m = 256u64;
        let mut tot = 0i128;
        for &cw in &col_words {
            for k in 0..m {
                let tw = (k << 56) | (1 << 55);
                match run(&[cw, tw], st) { Some(i) => { counts[i] += 1; tot += 1; } None => return }
            }
            for tw in [0u64, !0u64] { if run(&[cw, tw], st).is_none() { return; } }
        }
        // proportionality on the lattice is judged for float weights only (one word per draw, monotone map); for integer
        // weights with large sums the range reduction may consult further words, and exactness follows from weights()
        for i in 0..if W::IS_FLOAT { n } else { 0 } {
            let p = ws[i].as_f() / sum_f;
            let q = counts[i] as f64 / tot as f64;
            if (p - q).abs() > (n as f64 + 1.0) / (m as f64 * n as f64) + 1e-6 {
                viol("not-proportional", format!("index {i} is returned for {:.5} of the equispaced (column, threshold) words, its weight share is {:.5}", q, p));
                return;
            }
        }
    }
}

fn enumerate<W: AW>(rep: &Report, max_len: usize, st: &mut AStats, exact_budget: u64)
where
    Uniform<W>: Clone,
{
    check_vector::<W>(rep, &[], st, exact_budget);
    for len in 1..=max_len {
        let alpha = W::alphabet(len);
        let mut idx = vec![0usize; len];
        loop {
            let ws: Vec<W> = idx.iter().map(|&i| alpha[i]).collect();
            check_vector(rep, &ws, st, exact_budget);
            let mut d = 0;
            loop {
                idx[d] += 1;
                if idx[d] < alpha.len() { break; }
                idx[d] = 0;
                d += 1;
                if d == len { break; }
            }
            if d == len { break; }
        }
    }
    // structured long vectors: lengths around the narrow types' limits and around the pairwise-summation block size
    for &len in &[31usize, 32, 33, 40, 64, 65, 127, 128, 129, 255, 256, 257, 300] {
        let mk = |f: &dyn Fn(usize) -> u64| -> Vec<W> { (0..len).map(|i| W::from_u(f(i))).collect() };
        let mut vs: Vec<Vec<W>> = vec![mk(&|_| 1), mk(&|i| (i % 3) as u64), mk(&|i| if i == len / 2 { 1 } else { 0 }), mk(&|i| if i == 0 { 3 } else { 0 }), mk(&|i| if i == len - 1 { 2 } else { 0 })];
        if W::IS_FLOAT || std::mem::size_of::<W>() >= 2 {
            vs.push(mk(&|i| if i == len / 2 { 100 } else { 1 }));
            vs.push(mk(&|i| if i == 20 % len { 100 } else { 1 }));
        }
        for v in vs {
            check_vector(rep, &v, st, 0);
        }
    }
}

pub fn run(tier: Tier, seed: u64) -> i32 {
    let rep = Report::new("C08", "model_checking", if tier == Tier::Quick { "quick" } else { "thorough" }, seed);
    let l = if tier == Tier::Quick { 5 } else { 6 };
    let budget = if tier == Tier::Quick { 128 } else { 1024 };
    let mut per = vec![];
    macro_rules! go { ($t:ty) => {{ let mut s = AStats::default(); enumerate::<$t>(&rep, l, &mut s, budget); per.push((<$t as AW>::NAME, s)); }}; }
    go!(u8); go!(u16); go!(u32); go!(u64); go!(usize); go!(u128); go!(i8); go!(i16); go!(i32); go!(i64); go!(i128); go!(f32); go!(f64);
    let vectors: u64 = per.iter().map(|p| p.1.vectors).sum();
    let execs: u64 = per.iter().map(|p| p.1.execs).sum();
    rep.set("states", json!(vectors));
    rep.set("transitions", json!(execs.max(1)));
    rep.set("traces_validated_against_impl", json!(execs));
    rep.set("evaluations", json!(execs + vectors));
    rep.set("distinct_nontrivial", json!(per.iter().map(|p| p.1.accepted).sum::<u64>()));
    rep.set("rule", json!("every weight vector up to the stated length over the per-type alphabet {0,1,2,3, MAX/len-1, MAX/len, MAX/len+1, -1 | floats: 0,1,2,0.3,1e-30,1e30,-1,NaN,-0,inf}, plus structured vectors of length 31..300; for integer sums within the budget every (column, threshold) execution, found through the environment's own Uniform; every execution is also run on a clone"));
    rep.set("max_len", json!(l));
    rep.set("exact_sum_budget", json!(budget));
    rep.set("exhaustive", json!(true));
    rep.set("exhaustive_scope", json!("all vectors up to max_len over the alphabet; all (column, threshold) pairs for sums within the budget"));
    rep.set("samples", json!(per.iter().map(|(n, s)| json!({"weight_type": n, "vectors": s.vectors, "accepted": s.accepted, "sampling_executions": s.execs, "vectors_with_every_column_threshold_pair": s.exact_vectors})).collect::<Vec<_>>()));
    rep.assume("rand's Uniform<int> maps a word to a target without consulting further words for the probed words (verified per probe: exactly one word consumed)");
    rep.finish()
}
