//! C03 (support, no panic) and C05 (bounded word consumption / termination), deviation part.

use crate::cases::{Case, Law, Tier, all_cases};
use crate::dev::*;
use crate::report::Report;
use rand_distr::Hypergeometric;
use serde_json::json;
use std::sync::Arc;
use std::sync::atomic::Ordering::Relaxed;

/// all (N,K,n) with N <= nmax as C03/C05 cases
pub fn hyper_small_cases(nmax: u64) -> Vec<Case> {
    let mut v = vec![];
    for nn in 0..=nmax {
        for kk in 0..=nn {
            for n in 0..=nn {
                let lo = (n + kk).saturating_sub(nn);
                let hi = n.min(kk);
                let chk: crate::sampler::Chk<u64> = Arc::new(move |x: u64| if x < lo || x > hi { Some("outside [max(0,n+K-N), min(n,K)]") } else { None });
                let build = Arc::new(move || {
                    Hypergeometric::new(nn, kk, n).ok().map(|d| Box::new(crate::sampler::Sc::new(d, chk.clone())) as Box<dyn crate::sampler::Sampler>)
                });
                v.push(Case {
                    family: "Hypergeometric",
                    fty: "u64",
                    label: format!("Hypergeometric<u64>(N={nn},K={kk},n={n})"),
                    params: vec![nn as f64, kk as f64, n as f64],
                    build,
                    law: Law::None,
                    in_law: false,
                    pdf: None,
                    law_note: "",
                    abs_gran: 0.0,
                });
            }
        }
    }
    v
}

pub fn run(prop: &'static str, tier: Tier, seed: u64) -> i32 {
    let rep = Report::new(prop, "fault_enumeration", if tier == Tier::Quick { "quick" } else { "thorough" }, seed);
    let mut cases = all_cases(tier, seed);
    // one case per distinct sampler (drop duplicate projections of the vector families)
    let mut seen = std::collections::BTreeSet::new();
    cases.retain(|c| {
        let k = format!("{}|{}|{:?}", c.family, c.fty, c.params);
        seen.insert(k)
    });
    let n_main = cases.len();
    let cases = Arc::new(cases);
    let cfg = Arc::new(DevConfig::new(tier, seed));
    let res = sweep(cases.clone(), cfg.clone(), prop == "C03");
    // exhaustive small hypergeometric space, fewer positions (HIN uses one word, H2PE two per iteration)
    let hyp = Arc::new(hyper_small_cases(if tier == Tier::Quick { 40 } else { 40 }));
    let mut hcfg = DevConfig::new(tier, seed);
    hcfg.positions = if tier == Tier::Quick { 2 } else { 4 };
    hcfg.seeds.truncate(if tier == Tier::Quick { 2 } else { 8 });
    let hres = sweep(hyp.clone(), Arc::new(hcfg), false);

    if std::env::var("VERIF_PROFILE").is_ok() {
        let m = res.stats.case_ns.lock().unwrap();
        let mut v: Vec<(u64, usize)> = m.iter().map(|(k, v)| (*v, *k)).collect();
        v.sort();
        for (ns, ci) in v.iter().rev().take(25) {
            eprintln!("{:8.2}s {}", *ns as f64 / 1e9, cases[*ci].label);
        }
        let tot: u64 = v.iter().map(|x| x.0).sum();
        eprintln!("total {:.1}s cpu in main sweep", tot as f64 / 1e9);
    }
    let mut n_rel = 0u64;
    for (cs, r) in [(&cases, &res), (&hyp, &hres)] {
        for f in &r.findings {
            let relevant = match prop {
                "C03" => matches!(f.kind, "panic" | "support" | "ctor-panic"),
                _ => matches!(f.kind, "cap" | "timeout" | "ctor-timeout"),
            };
            if relevant {
                n_rel += 1;
                report_finding(&rep, cs, f);
            }
        }
    }
    let ex = res.stats.executions.load(Relaxed) + hres.stats.executions.load(Relaxed);
    let distinct = res.stats.distinct_outputs.lock().unwrap().len() + hres.stats.distinct_outputs.lock().unwrap().len();
    rep.set("evaluations", json!(ex));
    rep.set("distinct_nontrivial", json!(distinct));
    rep.set("rule", json!("every (case in envelope E incl. the extremes, base seed, request position, word of the boundary lattice Λ) plus the 0-deviation base streams; for f32 cases all 2^24 top-bit patterns at the first request(s); all Hypergeometric(N,K,n) with N<=40. Executions whose returned bit pattern is distinct are counted as distinct (capped sample of 64 outputs per job)."));
    rep.set("exhaustive", json!(false));
    rep.set("cases", json!(n_main + hyp.len()));
    rep.set("jobs", json!(res.n_jobs + hres.n_jobs));
    rep.set("lambda_words", json!(lambda_words().len()));
    rep.set("positions", json!(cfg.positions));
    rep.set("base_seeds", json!(cfg.seeds.len()));
    rep.set("deviation_bound_completed", json!(1));
    rep.set("raw_findings", json!(n_rel));
    rep.set("max_requests_in_one_call", json!(res.stats.max_requests.load(Relaxed).max(hres.stats.max_requests.load(Relaxed))));
    let br = res.stats.base_runs.load(Relaxed).max(1);
    rep.set("mean_requests_on_base_streams", json!(res.stats.total_requests.load(Relaxed) as f64 / br as f64));
    rep.set("panics_seen", json!(res.stats.panics.load(Relaxed) + hres.stats.panics.load(Relaxed)));
    rep.set("support_violations_seen", json!(res.stats.bad.load(Relaxed) + hres.stats.bad.load(Relaxed)));
    rep.set("caps_seen", json!(res.stats.caps.load(Relaxed) + hres.stats.caps.load(Relaxed)));
    for c in cases.iter().step_by(97).take(8) {
        rep.sample(json!({"case": c.label, "stream": "base seed s, request p replaced by each word of Λ", "example_word": "0xfffffffffffff800 (top 53 bits all ones)"}));
    }
    if prop == "C05" {
        words_part(&rep, tier, seed);
    }
    rep.assume("rand 0.10 word->variate conversions are the trusted environment; next_u32 is served from the top 32 bits of a script word");
    rep.assume("two or more simultaneously adversarial words are outside the property's quantifier and not explored");
    rep.finish()
}

/// C05 part (a): exact expected word consumption of every law case under a coarse finite alphabet (engine T with
/// loop closure): a parameter region where an acceptance rate collapses shows up as E[#words] of 10^2 - 10^6.
fn words_part(rep: &Report, tier: Tier, seed: u64) {
    use crate::tree::{Explorer, Grid, TreeCfg};
    use rayon::prelude::*;
    let (ma, _prs) = crate::prims::build_macros(1 << 10, 1 << 7);
    let macros = std::sync::Mutex::new(ma);
    let mut cases: Vec<Case> = all_cases(tier, seed).into_iter().filter(|c| c.in_law && c.law_note.is_empty()).collect();
    let mut seen = std::collections::BTreeSet::new();
    cases.retain(|c| seen.insert(format!("{}|{}|{:?}", c.family, c.fty, c.params)));
    let grid = Grid { cps: vec![0.0], consecutive_int: false };
    let res: Vec<(String, f64, f64, u64, usize)> = cases.par_iter().filter_map(|c| {
        let s = (c.build)()?;
        let mut cfg = TreeCfg::default();
        cfg.lattice = vec![64, 16, 8, 4, 2];
        cfg.macro_cells = vec![64, 16, 8, 4, 2];
        cfg.tail_bits = 8;
        cfg.exec_budget = 4_000_000;
        cfg.deadline = Some(std::time::Instant::now() + std::time::Duration::from_secs(6));
        let mut ex = Explorer::new(&*s, &grid, cfg, Some(&macros));
        let r = ex.run(&[]);
        let outputs = if c.family == "Dirichlet" { c.params.len().max(1) } else if c.family == "UnitSphere" || c.family == "UnitBall" { 3 } else if c.family.starts_with("Unit") { 2 } else { 1 };
        Some((c.label.clone(), r.words, r.resid, ex.cnt.execs, outputs))
    }).collect();
    let mut execs = 0u64;
    let mut judged = 0u64;
    let mut worst: Vec<(f64, String)> = vec![];
    for (label, words, resid, ex, outputs) in &res {
        execs += ex;
        if *resid > 0.5 {
            continue; // not closable at this resolution (deep value chains): judged by the per-call cap of the deviation sweep only
        }
        judged += 1;
        let per = words / *outputs as f64;
        worst.push((per, label.clone()));
        // a-priori constant: UnitBall needs 5.7 words, the published acceptance rates of MT, Cheng BB/BC, BTPE, H2PE, PD and the
        // rejection-inversion samplers are all >= 0.25 with at most 4 words per attempt
        if per > 32.0 {
            rep.violation(format!("{}|expected-words|{}", label.split('<').next().unwrap_or(""), label), format!("{label}: expected number of RNG words per output is {per:.1} (> 32): an acceptance rate has collapsed"), serde_json::json!({"case": label, "expected_words_per_output": per, "residual": resid}));
        }
    }
    worst.sort_by(|a, b| b.0.partial_cmp(&a.0).unwrap());
    rep.set("expected_words_cases_judged", serde_json::json!(judged));
    rep.set("expected_words_executions", serde_json::json!(execs));
    rep.set("largest_expected_words_per_output", serde_json::json!(worst.iter().take(8).map(|w| serde_json::json!({"case": w.1, "words": w.0})).collect::<Vec<_>>()));
}
